// racecheck - stress driver for property C08, built with `go build -race`.
//
// It is the SEARCH step of the C08 check (a proof obligation over the regenerated
// lock/access summaries broke: look for a concrete racing schedule) and the
// re-confirmation of the listed known findings.  2..16 goroutines run random call
// sequences, each over its own Sub view (own user) of one MemFS tree, all over one
// shared OrefaFS and one shared MemIdm, on shared and on distinct open handles.
// The operations are restricted to the entry points named with -ops (names as in
// Gen_access.v: memfs.MemFS.Chmod, orefafs.OrefaFile.Read, ...); empty = all.
// Race reports are written by the Go race runtime to stderr; the caller parses them.
package main

import (
	"flag"
	"fmt"
	"io/fs"
	"math/rand"
	"os"
	"sort"
	"strings"
	"sync"
	"time"

	"github.com/avfs/avfs"
	"github.com/avfs/avfs/idm/memidm"
	"github.com/avfs/avfs/vfs/memfs"
	"github.com/avfs/avfs/vfs/orefafs"
)

type world struct {
	idm     *memidm.MemIdm
	root    *memfs.MemFS
	views   []avfs.VFS
	orefa   *orefafs.OrefaFS
	win     *memfs.MemFS
	sharedM []avfs.File // handles opened through view 0, used by everybody
	sharedD []avfs.File
	sharedO []avfs.File
	sharedP []avfs.File
	users   []avfs.UserReader
}

type gctx struct {
	w    *world
	id   int
	rng  *rand.Rand
	view avfs.VFS
	ownM avfs.File
	ownO avfs.File
	n    int
}

var paths = []string{"/d", "/d/f", "/d/g", "/d/sub", "/d/sub/h", "/d/l", "/d/ls", "/d/sub/deep", "/d/sub/deep/x", "/d/ls/h", "f", "sub/h", "/d/new", "/d/sub/new"}
var dirs = []string{"/d", "/d/sub", "/d/sub/deep", "/d/ls"}
var files = []string{"/d/f", "/d/g", "/d/sub/h", "/d/l", "/d/sub/deep/x"}

func (g *gctx) path() string { return paths[g.rng.Intn(len(paths))] }
func (g *gctx) dir() string  { return dirs[g.rng.Intn(len(dirs))] }
func (g *gctx) file() string { return files[g.rng.Intn(len(files))] }

func populate(v avfs.VFS, symlinks bool) {
	_ = v.MkdirAll("/d/sub/deep", 0o777)
	_ = v.Chmod("/d", 0o777)
	_ = v.Chmod("/d/sub", 0o777)
	_ = v.Chmod("/d/sub/deep", 0o777)
	for _, f := range []string{"/d/f", "/d/g", "/d/sub/h", "/d/sub/deep/x"} {
		_ = v.WriteFile(f, []byte("0123456789abcdef"), 0o666)
		_ = v.Chmod(f, 0o666)
	}
	if symlinks {
		_ = v.Symlink("/d/f", "/d/l")
		_ = v.Symlink("/d/sub", "/d/ls")
	}
}

type vfsOp func(v avfs.VFS, g *gctx)
type fileOp func(f avfs.File, g *gctx)

var vfsOps = map[string]vfsOp{
	"Abs":          func(v avfs.VFS, g *gctx) { _, _ = v.Abs("rel/x") },
	"Chdir":        func(v avfs.VFS, g *gctx) { _ = v.Chdir(g.dir()) },
	"Chmod":        func(v avfs.VFS, g *gctx) { _ = v.Chmod(g.path(), fs.FileMode(0o600|g.rng.Intn(0o200))) },
	"Chown":        func(v avfs.VFS, g *gctx) { _ = v.Chown(g.path(), g.rng.Intn(3), g.rng.Intn(3)) },
	"Lchown":       func(v avfs.VFS, g *gctx) { _ = v.Lchown(g.path(), g.rng.Intn(3), g.rng.Intn(3)) },
	"Chtimes":      func(v avfs.VFS, g *gctx) { _ = v.Chtimes(g.path(), time.Now(), time.Now()) },
	"Create":       func(v avfs.VFS, g *gctx) { closeIt(v.Create(g.file())) },
	"CreateTemp":   func(v avfs.VFS, g *gctx) { closeIt(v.CreateTemp("/d", "t*")) },
	"EvalSymlinks": func(v avfs.VFS, g *gctx) { _, _ = v.EvalSymlinks(g.path()) },
	"Getwd":        func(v avfs.VFS, g *gctx) { _, _ = v.Getwd() },
	"Glob":         func(v avfs.VFS, g *gctx) { _, _ = v.Glob("/d/*") },
	"Link":         func(v avfs.VFS, g *gctx) { _ = v.Link(g.file(), "/d/sub/new") },
	"Lstat":        func(v avfs.VFS, g *gctx) { useInfo(v.Lstat(g.path())) },
	"Stat":         func(v avfs.VFS, g *gctx) { useInfo(v.Stat(g.path())) },
	"Mkdir":        func(v avfs.VFS, g *gctx) { _ = v.Mkdir(g.path(), 0o777) },
	"MkdirAll":     func(v avfs.VFS, g *gctx) { _ = v.MkdirAll(g.path()+"/a/b", 0o777) },
	"MkdirTemp":    func(v avfs.VFS, g *gctx) { _, _ = v.MkdirTemp("/d", "m*") },
	"Open":         func(v avfs.VFS, g *gctx) { closeIt(v.Open(g.path())) },
	"OpenFile": func(v avfs.VFS, g *gctx) {
		flags := []int{os.O_RDONLY, os.O_RDWR, os.O_RDWR | os.O_CREATE, os.O_WRONLY | os.O_TRUNC, os.O_RDWR | os.O_APPEND, os.O_RDWR | os.O_CREATE | os.O_EXCL}
		closeIt(v.OpenFile(g.path(), flags[g.rng.Intn(len(flags))], 0o666))
	},
	"ReadDir":  func(v avfs.VFS, g *gctx) { _, _ = v.ReadDir(g.dir()) },
	"ReadFile": func(v avfs.VFS, g *gctx) { _, _ = v.ReadFile(g.file()) },
	"Readlink": func(v avfs.VFS, g *gctx) { _, _ = v.Readlink([]string{"/d/l", "/d/ls", "/d/f"}[g.rng.Intn(3)]) },
	"Remove":   func(v avfs.VFS, g *gctx) { _ = v.Remove(g.path()) },
	"RemoveAll": func(v avfs.VFS, g *gctx) {
		_ = v.RemoveAll([]string{"/d/sub", "/d/sub/deep", "/d/new", "/d/f", "/d/l", "/d/sub/new"}[g.rng.Intn(6)])
	},
	"Rename": func(v avfs.VFS, g *gctx) {
		a, b := g.path(), g.path()
		_ = v.Rename(a, b)
	},
	"Symlink":   func(v avfs.VFS, g *gctx) { _ = v.Symlink(g.path(), []string{"/d/l", "/d/ls", "/d/new"}[g.rng.Intn(3)]) },
	"Truncate":  func(v avfs.VFS, g *gctx) { _ = v.Truncate(g.file(), int64(g.rng.Intn(40))) },
	"WalkDir":   func(v avfs.VFS, g *gctx) { _ = v.WalkDir("/d", func(string, fs.DirEntry, error) error { return nil }) },
	"WriteFile": func(v avfs.VFS, g *gctx) { _ = v.WriteFile(g.file(), []byte("hello world"), 0o666) },
	"Sub": func(v avfs.VFS, g *gctx) {
		if s, err := v.Sub("/d"); err == nil {
			_, _ = s.Stat("/f")
		}
	},
	"SetUserByName": func(v avfs.VFS, g *gctx) { _ = v.SetUserByName(fmt.Sprintf("u%d", g.id%4)) },
	"SetUser":       func(v avfs.VFS, g *gctx) { _ = v.SetUser(g.w.users[g.rng.Intn(len(g.w.users))]) },
	"User":          func(v avfs.VFS, g *gctx) { _ = v.User().Name() },
	"SetIdm":        func(v avfs.VFS, g *gctx) { _ = v.SetIdm(g.w.idm) },
	"Idm":           func(v avfs.VFS, g *gctx) { _ = v.Idm() },
	"SetUMask":      func(v avfs.VFS, g *gctx) { _ = v.SetUMask(fs.FileMode(g.rng.Intn(0o100))) },
	"UMask":         func(v avfs.VFS, g *gctx) { _ = v.UMask() },
	"TempDir":       func(v avfs.VFS, g *gctx) { _ = v.TempDir() },
	"SameFile": func(v avfs.VFS, g *gctx) {
		a, e1 := v.Stat(g.file())
		b, e2 := v.Stat(g.file())
		if e1 == nil && e2 == nil {
			_ = v.SameFile(a, b)
		}
	},
}

func useInfo(fi fs.FileInfo, err error) {
	if err != nil || fi == nil {
		return
	}
	_ = fi.Mode()
	_ = fi.Size()
	_ = fi.ModTime()
	_ = fi.IsDir()
}

func closeIt(f avfs.File, err error) {
	if err == nil && f != nil {
		_ = f.Close()
	}
}

var fileOps = map[string]fileOp{
	"Chdir":        func(f avfs.File, g *gctx) { _ = f.Chdir() },
	"Chmod":        func(f avfs.File, g *gctx) { _ = f.Chmod(fs.FileMode(0o600 | g.rng.Intn(0o200))) },
	"Chown":        func(f avfs.File, g *gctx) { _ = f.Chown(g.rng.Intn(3), g.rng.Intn(3)) },
	"Name":         func(f avfs.File, g *gctx) { _ = f.Name() },
	"Read":         func(f avfs.File, g *gctx) { _, _ = f.Read(make([]byte, 4)) },
	"ReadAt":       func(f avfs.File, g *gctx) { _, _ = f.ReadAt(make([]byte, 4), int64(g.rng.Intn(8))) },
	"ReadDir":      func(f avfs.File, g *gctx) { _, _ = f.ReadDir(g.rng.Intn(3) - 1) },
	"Readdirnames": func(f avfs.File, g *gctx) { _, _ = f.Readdirnames(g.rng.Intn(3) - 1) },
	"Seek":         func(f avfs.File, g *gctx) { _, _ = f.Seek(int64(g.rng.Intn(8)), g.rng.Intn(3)) },
	"Stat":         func(f avfs.File, g *gctx) { useInfo(f.Stat()) },
	"Sync":         func(f avfs.File, g *gctx) { _ = f.Sync() },
	"Truncate":     func(f avfs.File, g *gctx) { _ = f.Truncate(int64(g.rng.Intn(40))) },
	"Write":        func(f avfs.File, g *gctx) { _, _ = f.Write([]byte("xy")) },
	"WriteAt":      func(f avfs.File, g *gctx) { _, _ = f.WriteAt([]byte("zz"), int64(g.rng.Intn(8))) },
	"WriteString":  func(f avfs.File, g *gctx) { _, _ = f.WriteString("s") },
}

var dirFileOps = map[string]bool{"Chdir": true, "ReadDir": true, "Readdirnames": true}

type op struct {
	name string
	run  func(g *gctx)
}

func registry(w *world) map[string]func(g *gctx) {
	r := map[string]func(g *gctx){}
	for n, f := range vfsOps {
		f := f
		r["memfs.MemFS."+n] = func(g *gctx) { f(g.view, g) }
		r["orefafs.OrefaFS."+n] = func(g *gctx) { f(g.w.orefa, g) }
	}
	pick := func(g *gctx, shared []avfs.File, own avfs.File) avfs.File {
		if own == nil || g.rng.Intn(3) != 0 {
			return shared[g.rng.Intn(len(shared))]
		}
		return own
	}
	for n, f := range fileOps {
		f, n := f, n
		r["memfs.MemFile."+n] = func(g *gctx) {
			if dirFileOps[n] && g.rng.Intn(4) != 0 {
				f(g.w.sharedD[g.rng.Intn(len(g.w.sharedD))], g)
				return
			}
			f(pick(g, g.w.sharedM, g.ownM), g)
		}
		r["orefafs.OrefaFile."+n] = func(g *gctx) {
			if dirFileOps[n] && g.rng.Intn(4) != 0 {
				f(g.w.sharedP[g.rng.Intn(len(g.w.sharedP))], g)
				return
			}
			f(pick(g, g.w.sharedO, g.ownO), g)
		}
	}
	// Close: on the goroutine's own handle, then a new one is opened (shared handles stay open)
	r["memfs.MemFile.Close"] = func(g *gctx) {
		if g.ownM != nil {
			_ = g.ownM.Close()
		}
		g.ownM, _ = g.view.OpenFile("/d/f", os.O_RDWR|os.O_CREATE, 0o666)
	}
	r["orefafs.OrefaFile.Close"] = func(g *gctx) {
		if g.ownO != nil {
			_ = g.ownO.Close()
		}
		g.ownO, _ = g.w.orefa.OpenFile("/d/f", os.O_RDWR|os.O_CREATE, 0o666)
	}
	// identity manager
	r["memidm.MemIdm.AddGroup"] = func(g *gctx) { _, _ = g.w.idm.AddGroup(fmt.Sprintf("grp%d", g.rng.Intn(6))) }
	r["memidm.MemIdm.DelGroup"] = func(g *gctx) { _ = g.w.idm.DelGroup(fmt.Sprintf("grp%d", g.rng.Intn(6))) }
	r["memidm.MemIdm.AddUser"] = func(g *gctx) { _, _ = g.w.idm.AddUser(fmt.Sprintf("usr%d", g.rng.Intn(6)), "g") }
	r["memidm.MemIdm.DelUser"] = func(g *gctx) { _ = g.w.idm.DelUser(fmt.Sprintf("usr%d", g.rng.Intn(6))) }
	r["memidm.MemIdm.LookupGroup"] = func(g *gctx) {
		if gr, err := g.w.idm.LookupGroup(fmt.Sprintf("grp%d", g.rng.Intn(6))); err == nil {
			_ = gr.Gid()
			_ = gr.Name()
		}
	}
	r["memidm.MemIdm.LookupGroupId"] = func(g *gctx) { _, _ = g.w.idm.LookupGroupId(1000 + g.rng.Intn(8)) }
	r["memidm.MemIdm.LookupUser"] = func(g *gctx) {
		if u, err := g.w.idm.LookupUser(fmt.Sprintf("usr%d", g.rng.Intn(6))); err == nil {
			_ = u.Uid()
			_ = u.Gid()
			_ = u.Name()
			_ = u.IsAdmin()
		}
	}
	r["memidm.MemIdm.LookupUserId"] = func(g *gctx) { _, _ = g.w.idm.LookupUserId(1000 + g.rng.Intn(8)) }
	r["memidm.MemIdm.AdminUser"] = func(g *gctx) { _ = g.w.idm.AdminUser().Name() }
	r["memidm.MemIdm.AdminGroup"] = func(g *gctx) { _ = g.w.idm.AdminGroup().Name() }
	// volumes (Windows flavoured MemFS; needs the avfs_setostype build)
	if w.win != nil {
		r["memfs.MemFS.VolumeAdd"] = func(g *gctx) { _ = g.w.win.VolumeAdd(fmt.Sprintf("%c:", 'D'+g.rng.Intn(4))) }
		r["memfs.MemFS.VolumeDelete"] = func(g *gctx) { _ = g.w.win.VolumeDelete(fmt.Sprintf("%c:", 'D'+g.rng.Intn(4))) }
		r["memfs.MemFS.VolumeList"] = func(g *gctx) { _ = g.w.win.VolumeList() }
		r["win:memfs.MemFS.Stat"] = func(g *gctx) { _, _ = g.w.win.Stat(fmt.Sprintf("%c:\\x", 'C'+g.rng.Intn(5))) }
		r["win:memfs.MemFS.Mkdir"] = func(g *gctx) { _ = g.w.win.Mkdir(fmt.Sprintf("%c:\\x", 'C'+g.rng.Intn(5)), 0o777) }
	}
	return r
}

func newWorld(n int) *world {
	w := &world{}
	w.idm = memidm.New()
	_, _ = w.idm.AddGroup("g")
	for i := 0; i < 4; i++ {
		u, _ := w.idm.AddUser(fmt.Sprintf("u%d", i), "g")
		w.users = append(w.users, u)
	}
	w.root = memfs.NewWithOptions(&memfs.Options{Idm: w.idm})
	populate(w.root, true)
	for i := 0; i < n; i++ {
		if i == 0 {
			w.views = append(w.views, w.root)
			continue
		}
		v, err := w.root.Sub("/")
		if err != nil {
			panic(err)
		}
		// different users: every other view runs as an ordinary user
		if i%2 == 1 {
			_ = v.SetUser(w.users[i%len(w.users)])
		}
		w.views = append(w.views, v)
	}
	w.orefa = orefafs.New()
	populate(w.orefa, false)
	for i := 0; i < 2; i++ {
		f, err := w.root.OpenFile("/d/f", os.O_RDWR, 0)
		if err != nil {
			panic(err)
		}
		w.sharedM = append(w.sharedM, f)
		d, err := w.root.Open("/d")
		if err != nil {
			panic(err)
		}
		w.sharedD = append(w.sharedD, d)
		o, err := w.orefa.OpenFile("/d/f", os.O_RDWR, 0)
		if err != nil {
			panic(err)
		}
		w.sharedO = append(w.sharedO, o)
		p, err := w.orefa.Open("/d")
		if err != nil {
			panic(err)
		}
		w.sharedP = append(w.sharedP, p)
	}
	if avfs.BuildFeatures()&avfs.FeatSetOSType != 0 {
		w.win = memfs.NewWithOptions(&memfs.Options{OSType: avfs.OsWindows})
		if w.win.OSType() != avfs.OsWindows {
			w.win = nil
		}
	}
	return w
}

func main() {
	opsFlag := flag.String("ops", "", "comma separated entry points to exercise (empty: all)")
	list := flag.Bool("list", false, "list the known entry points")
	ng := flag.Int("g", 8, "goroutines (2..16)")
	seed := flag.Int64("seed", 1, "seed")
	dur := flag.Duration("dur", time.Second, "duration")
	repair := flag.Bool("repair", true, "recreate the tree now and then")
	flag.Parse()
	if *ng < 2 {
		*ng = 2
	}
	if *ng > 16 {
		*ng = 16
	}
	w := newWorld(*ng)
	reg := registry(w)
	if *list {
		var names []string
		for n := range reg {
			names = append(names, n)
		}
		sort.Strings(names)
		fmt.Println(strings.Join(names, "\n"))
		return
	}
	var ops []op
	missing := []string{}
	if *opsFlag == "" {
		for n, f := range reg {
			if strings.HasPrefix(n, "win:") || strings.Contains(n, "Volume") {
				continue
			}
			ops = append(ops, op{n, f})
		}
	} else {
		for _, n := range strings.Split(*opsFlag, ",") {
			if f, ok := reg[n]; ok {
				ops = append(ops, op{n, f})
			} else {
				missing = append(missing, n)
			}
		}
	}
	sort.Slice(ops, func(i, j int) bool { return ops[i].name < ops[j].name })
	if len(ops) == 0 {
		fmt.Println("racecheck: no operation to run; unknown:", strings.Join(missing, ","))
		os.Exit(3)
	}
	deadline := time.Now().Add(*dur)
	var wg sync.WaitGroup
	counts := make([]int, *ng)
	for i := 0; i < *ng; i++ {
		g := &gctx{w: w, id: i, rng: rand.New(rand.NewSource(*seed*1000 + int64(i))), view: w.views[i]}
		g.ownM, _ = g.view.OpenFile("/d/f", os.O_RDWR, 0)
		g.ownO, _ = w.orefa.OpenFile("/d/f", os.O_RDWR, 0)
		wg.Add(1)
		go func(g *gctx) {
			defer wg.Done()
			defer func() {
				// a panic inside avfs (slice bounds ...) belongs to other properties; keep going
				_ = recover()
			}()
			for time.Now().Before(deadline) {
				o := ops[g.rng.Intn(len(ops))]
				func() {
					defer func() { _ = recover() }()
					o.run(g)
				}()
				g.n++
				if *repair && g.rng.Intn(40) == 0 {
					func() {
						defer func() { _ = recover() }()
						if strings.HasPrefix(o.name, "orefafs") {
							populate(w.orefa, false)
						} else if strings.HasPrefix(o.name, "memfs") {
							populate(g.view, true)
						}
					}()
				}
			}
			counts[g.id] = g.n
		}(g)
	}
	done := make(chan struct{})
	go func() { wg.Wait(); close(done) }()
	select {
	case <-done:
	case <-time.After(*dur + 3*time.Second):
		// a goroutine is stuck (a lock left held after a panic, or a deadlock: other properties)
		fmt.Println("racecheck: watchdog: some goroutine did not finish")
		os.Exit(0)
	}
	total := 0
	for _, c := range counts {
		total += c
	}
	fmt.Printf("racecheck: %d goroutines, %d operations over %d entry points, unknown=%v\n", *ng, total, len(ops), missing)
}
