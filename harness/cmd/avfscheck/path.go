package main

import (
	"fmt"
	"path/filepath"
	"strings"
	"time"

	"github.com/avfs/avfs"
	"github.com/avfs/avfs/vfs/memfs"

	// the toolchain's Windows path/filepath, retargeted to this host by lib/vcheck/winportgen.py (generated)
	"verifharness/winfp"
	winlite "verifharness/winfp/filepathlite"
)

func init() { commands["path"] = runPath }

var pathFS = map[string]*memfs.MemFS{}

func fsOf(osn string) *memfs.MemFS {
	if v, ok := pathFS[osn]; ok {
		return v
	}
	t := avfs.OsLinux
	if osn == "windows" {
		t = avfs.OsWindows
	}
	v := memfs.NewWithOptions(&memfs.Options{OSType: t})
	if v.OSType() != t {
		panic(fmt.Sprintf("cannot build a %s-typed MemFS (OSType=%v, features=%v): harness must be built with -tags avfs_setostype", osn, v.OSType(), avfs.BuildFeatures()))
	}
	pathFS[osn] = v
	return v
}

func b01(x bool) string {
	if x {
		return "1"
	}
	return "0"
}

func guard(f func() string) (res string) {
	defer func() {
		if r := recover(); r != nil {
			res = "PANIC"
		}
	}()
	return f()
}

func pathOne(osn, s string) string {
	v := fsOf(osn)
	cur := "/cur/dir"
	if osn == "windows" {
		cur = `C:\cur`
	}
	impl := guard(func() string {
		d, f := avfs.Split(v, s)
		a, _ := avfs.Abs(v, s, cur)
		return fmt.Sprintf("clean=%s split=%s,%s dir=%s base=%s isabs=%s from=%s to=%s vol=%s vnl=%d abs=%s",
			tok(avfs.Clean(v, s)), tok(d), tok(f), tok(avfs.Dir(v, s)), tok(avfs.Base(v, s)), b01(avfs.IsAbs(v, s)),
			tok(avfs.FromSlash(v, s)), tok(avfs.ToSlash(v, s)), tok(avfs.VolumeName(v, s)), avfs.VolumeNameLen(v, s), tok(a))
	})
	if osn != "linux" {
		// second segment: Go's own Windows path/filepath (package winfp).  Abs of Windows proper asks the
		// system (GetFullPathName) and is not retargetable; the oracle for avfs.Abs(path, curDir) is the
		// portable definition of path/filepath.unixAbs over the Windows functions: Clean if IsAbs, else Join.
		win := guard(func() string {
			d, f := winfp.Split(s)
			a := ""
			if winfp.IsAbs(s) {
				a = winfp.Clean(s)
			} else {
				a = winfp.Join(cur, s)
			}
			return fmt.Sprintf("clean=%s split=%s,%s dir=%s base=%s isabs=%s from=%s to=%s vol=%s vnl=%d abs=%s",
				tok(winfp.Clean(s)), tok(d), tok(f), tok(winfp.Dir(s)), tok(winfp.Base(s)), b01(winfp.IsAbs(s)),
				tok(winfp.FromSlash(s)), tok(winfp.ToSlash(s)), tok(winfp.VolumeName(s)), winlite.VolumeNameLen(s), tok(a))
		})
		return impl + " || " + win
	}
	host := guard(func() string {
		d, f := filepath.Split(s)
		a := ""
		if filepath.IsAbs(s) {
			a = filepath.Clean(s)
		} else {
			a = filepath.Join(cur, s)
		}
		return fmt.Sprintf("clean=%s split=%s,%s dir=%s base=%s isabs=%s from=%s to=%s vol=%s vnl=%d abs=%s",
			tok(filepath.Clean(s)), tok(d), tok(f), tok(filepath.Dir(s)), tok(filepath.Base(s)), b01(filepath.IsAbs(s)),
			tok(filepath.FromSlash(s)), tok(filepath.ToSlash(s)), tok(filepath.VolumeName(s)), len(filepath.VolumeName(s)), tok(a))
	})
	return impl + " || " + host
}

// Rel is the one lexical function with an unbounded loop, and Go 1.23.5's Windows filepath.Rel (and avfs' copy
// of it) never returns on e.g. Rel(`\\a\b`, `\\a\b\`) (known finding C13-rel-unc-root-loop).  The oracle copy
// carries an exact iteration budget (winfp.ErrRelLoop); avfs cannot be instrumented, so its Rel runs in a
// goroutine with a deadline and a call that misses it is shown as "loop".  An abandoned goroutine spins until
// the process ends, so only the first maxRelLeaks inputs on which the oracle loops are really tried on avfs
// (deadline 300 ms); on the others avfs is ASSUMED to loop as well (counted as outcome:rel-loop-assumed).
// Where the oracle returns, avfs gets 3 s (the call takes microseconds); not returning is reported as rel=loop
// against the oracle's answer, and after maxRelHangs such inputs avfs.Rel is no longer called in this run
// (rel=notcalled, which no model or oracle answer equals).
var relLeaks, relHangs, relAssumed int

const (
	maxRelLeaks = 2
	maxRelHangs = 6
)

// one worker goroutine serves the calls; a worker that misses its deadline is abandoned and replaced
type relReq struct {
	v    *memfs.MemFS
	a, c string
}

var (
	relReqCh chan relReq
	relResCh chan string
	relTimer *time.Timer
)

func relWorker(req chan relReq, res chan string) {
	for r := range req {
		res <- guard(func() string { return showRel(avfs.Rel(r.v, r.a, r.c)) })
	}
}

func avfsRel(v *memfs.MemFS, a, c string, oracleLoops bool) string {
	if relHangs >= maxRelHangs {
		return "notcalled"
	}
	if oracleLoops && relLeaks >= maxRelLeaks {
		relAssumed++
		return "loop"
	}
	if relReqCh == nil {
		relReqCh, relResCh = make(chan relReq), make(chan string, 1)
		go relWorker(relReqCh, relResCh)
	}
	d := 3 * time.Second
	if oracleLoops {
		d = 300 * time.Millisecond
	}
	relReqCh <- relReq{v, a, c}
	if relTimer == nil {
		relTimer = time.NewTimer(d)
	} else {
		relTimer.Reset(d)
	}
	select {
	case r := <-relResCh:
		if !relTimer.Stop() {
			<-relTimer.C
		}
		return r
	case <-relTimer.C:
		if oracleLoops {
			relLeaks++
		} else {
			relHangs++
		}
		relReqCh = nil // the worker is stuck in Rel for ever: abandon it
		return "loop"
	}
}

func winRel(a, c string) (res string) {
	defer func() {
		if r := recover(); r != nil {
			if r == winfp.ErrRelLoop {
				res = "loop"
			} else {
				res = "PANIC"
			}
		}
	}()
	return showRel(winfp.Rel(a, c))
}

func showRel(r string, err error) string {
	if err != nil {
		return "err"
	}
	return "ok:" + tok(r)
}
func showMatch(m bool, err error) string {
	if err != nil {
		return "bad"
	}
	return b01(m)
}

func pathTwo(osn, a, c string) string {
	v := fsOf(osn)
	if osn != "linux" {
		wrel := winRel(a, c)
		win := guard(func() string {
			m, merr := winfp.Match(a, c)
			return fmt.Sprintf("join=%s join3=%s rel=%s match=%s", tok(winfp.Join(a, c)), tok(winfp.Join(c, a, c)), wrel, showMatch(m, merr))
		})
		irel := avfsRel(v, a, c, wrel == "loop")
		impl := guard(func() string {
			m, merr := avfs.Match(v, a, c)
			return fmt.Sprintf("join=%s join3=%s rel=%s match=%s", tok(avfs.Join(v, a, c)), tok(avfs.Join(v, c, a, c)), irel, showMatch(m, merr))
		})
		return impl + " || " + win
	}
	impl := guard(func() string {
		r, rerr := avfs.Rel(v, a, c)
		m, merr := avfs.Match(v, a, c)
		return fmt.Sprintf("join=%s join3=%s rel=%s match=%s", tok(avfs.Join(v, a, c)), tok(avfs.Join(v, c, a, c)), showRel(r, rerr), showMatch(m, merr))
	})
	host := guard(func() string {
		r, rerr := filepath.Rel(a, c)
		m, merr := filepath.Match(a, c)
		return fmt.Sprintf("join=%s join3=%s rel=%s match=%s", tok(filepath.Join(a, c)), tok(filepath.Join(c, a, c)), showRel(r, rerr), showMatch(m, merr))
	})
	return impl + " || " + host
}

func showPI(pi *avfs.PathIterator[*memfs.MemFS]) string {
	return fmt.Sprintf("%d:%d:%s:%s:%s:%s", pi.Start(), pi.End(), tok(pi.Part()), tok(pi.Left()), tok(pi.Right()), b01(pi.IsLast()))
}

func iterPI(pi *avfs.PathIterator[*memfs.MemFS]) []string {
	var acc []string
	for i := 0; ; i++ {
		if i == 64 {
			return append(acc, "FUEL")
		}
		if !pi.Next() {
			return acc
		}
		acc = append(acc, showPI(pi))
	}
}

func pathPI(osn, path, np string) string {
	v := fsOf(osn)
	return guard(func() string {
		parts := iterPI(avfs.NewPathIterator[*memfs.MemFS](v, path))
		var reps []string
		for k := range parts {
			pi := avfs.NewPathIterator[*memfs.MemFS](v, path)
			for j := 0; j <= k; j++ {
				pi.Next()
			}
			rep := guard(func() string {
				reset := pi.ReplacePart(np)
				return fmt.Sprintf("%s>%s:%d:%d>%s", b01(reset), tok(pi.Path()), pi.Start(), pi.End(), strings.Join(iterPI(pi), ","))
			})
			reps = append(reps, rep)
		}
		return fmt.Sprintf("parts=%s repl=%s", strings.Join(parts, ","), strings.Join(reps, ";"))
	})
}

func execPathCase(l string) string {
	f := strings.Fields(l)
	switch f[0] {
	case "one":
		return pathOne(f[1], untok(f[2]))
	case "two":
		return pathTwo(f[1], untok(f[2]), untok(f[3]))
	case "pi":
		return pathPI(f[1], untok(f[2]), untok(f[3]))
	}
	return "BADCASE"
}

// allStrings enumerates every string over alpha of length <= n.
func allStrings(alpha []string, n int, f func(string)) {
	var rec func(prefix string, k int)
	rec = func(prefix string, k int) {
		f(prefix)
		if k == 0 {
			return
		}
		for _, a := range alpha {
			rec(prefix+a, k-1)
		}
	}
	rec("", n)
}

// winVolumePrefixes: one representative (and a case/separator variant) per branch of volumeNameLen
var winVolumePrefixes = []string{
	`C:`, `c:`, `1:`, `é:`, `C:\`, `\`, `\\`, `\\a`, `\\a\`, `\\a\b`, `\\A\b`, `//a/b`, `\\a\b\c`,
	`\\.`, `\\.\`, `\\.\a`, `\\.\C:`, `//./a`, `\\?`, `\\?\`, `\\?\a`, `\\?\C:`, `\??`, `\??\`, `\??\a`, `\??\C:`, `/??/a`,
	`\\.\UNC`, `\\.\UNC\`, `\\.\UNC\a`, `\\.\UNC\a\b`, `\\.\unc\a\b`, `//./Unc/a/b`, `\\?\UNC\a\b`, `\??\UNC\a\b`, `\\.\UNCa`, `\\.x`, `\?`, `\?a`,
}

func runPath(cfg config) {
	o := newOut(cfg.dir, cfg.name)
	defer o.close(cfg.name)
	if ls := cfg.replayLines(); ls != nil {
		for _, l := range ls {
			o.emit(l, execPathCase(l), "")
		}
		return
	}
	o.rule = "exhaustive enumeration of all strings up to a length bound over the 13-symbol alphabet {a B . / \\ : ? * [ ] - ^ é} for the one-argument functions " +
		"(Clean Split Dir Base IsAbs FromSlash ToSlash VolumeName VolumeNameLen Abs), all pairs up to a smaller bound for Join/Rel/Match plus pairs over focused sub-alphabets, " +
		"for windows also every volume prefix of a fixed list (drive designators, UNC, \\\\.\\, \\\\?\\, \\??\\, \\\\.\\UNC\\ in several spellings) followed by every string of length <= 3 over {a . \\ / : ?}, and all pairs of prefix+suffix; " +
		"PathIterator walks with ReplacePart at every position of absolute paths over {a b . /} x replacement targets; both OS types; then seeded random longer strings. " +
		"A case is non-trivial when the function results are not all identity (distinct result vectors are counted)"
	full := []string{"a", "B", ".", "/", "\\", ":", "?", "*", "[", "]", "-", "^", "é"}
	n1, n2 := 4, 2
	nrand := 20000
	if cfg.tier == "thorough" {
		n1, n2, nrand = 5, 3, 400000
	}
	emit := func(line string) {
		obs := execPathCase(line)
		key := ""
		// distinct result vectors (without the input) - the input is trivial when every function is the identity
		if h := strings.Index(obs, " || "); h >= 0 {
			key = obs[:h]
		} else {
			key = obs
		}
		o.count("kind:" + line[:strings.Index(line, " ")])
		if strings.Contains(obs, "PANIC") {
			o.count("outcome:panic")
		}
		if strings.Contains(obs, "rel=loop") {
			o.count("outcome:rel-loop")
		}
		for ; relAssumed > 0; relAssumed-- {
			o.count("outcome:rel-loop-assumed")
		}
		o.emit(line, obs, key)
	}
	for _, osn := range []string{"linux", "windows"} {
		allStrings(full, n1, func(s string) { emit("one " + osn + " " + tok(s)) })
		// longer strings over the structural sub-alphabets
		allStrings([]string{"a", ".", "/"}, 8, func(s string) {
			if len(s) > n1 {
				emit("one " + osn + " " + tok(s))
			}
		})
		if osn == "windows" {
			allStrings([]string{"a", ".", "\\", "/", ":", "?"}, 6, func(s string) {
				if len(s) > n1 {
					emit("one " + osn + " " + tok(s))
				}
			})
		}
		if osn == "windows" {
			// volume prefixes the 13-symbol alphabet cannot spell (device and UNC forms, drive designators),
			// each followed by every string of length <= 3 over {a . \ / : ?}; and all pairs of
			// prefix+short suffix for Join/Rel
			var tails, stails []string
			allStrings([]string{"a", ".", "\\", "/", ":", "?"}, 3, func(s string) { tails = append(tails, s) })
			allStrings([]string{"a", ".", "\\"}, 2, func(s string) { stails = append(stails, s) })
			var vols []string
			for _, pfx := range winVolumePrefixes {
				for _, t := range tails {
					emit("one " + osn + " " + tok(pfx+t))
				}
				for _, t := range stails {
					vols = append(vols, pfx+t)
				}
			}
			for _, a := range vols {
				for _, c := range vols {
					emit("two " + osn + " " + tok(a) + " " + tok(c))
				}
			}
		}
		// pairs
		var small []string
		allStrings(full, n2, func(s string) { small = append(small, s) })
		for _, a := range small {
			for _, c := range small {
				emit("two " + osn + " " + tok(a) + " " + tok(c))
			}
		}
		var mid []string
		allStrings([]string{"a", ".", "/"}, 4, func(s string) { mid = append(mid, s) })
		for _, a := range mid {
			for _, c := range mid {
				emit("two " + osn + " " + tok(a) + " " + tok(c))
			}
		}
		// Match: patterns x names
		var pats, names []string
		allStrings([]string{"a", "*", "?", "[", "]", "-", "^", "\\", "/", "b"}, 4, func(s string) { pats = append(pats, s) })
		allStrings([]string{"a", "b", "/", "é", "-"}, 3, func(s string) { names = append(names, s) })
		for i, p := range pats {
			for j, nme := range names {
				if cfg.tier != "thorough" && (i+j)%3 != 0 {
					continue
				}
				emit("two " + osn + " " + tok(p) + " " + tok(nme))
			}
		}
		// PathIterator: absolute paths, replacement targets
		sep := "/"
		root := "/"
		if osn == "windows" {
			sep, root = "\\", "C:\\"
		}
		var comps []string
		allStrings([]string{"a", "b", ".", sep}, 5, func(s string) { comps = append(comps, s) })
		targets := []string{"x", "../x", "..", ".", "x/y", root + "z", root, "", "../../q", "a/../b", "x/", "./x"}
		if osn == "windows" {
			targets = append(targets, `x\y`, `..\x`, `D:\w`, `\w`)
		}
		for i, c := range comps {
			for j, t := range targets {
				if cfg.tier != "thorough" && (i+j)%2 != 0 {
					continue
				}
				emit("pi " + osn + " " + tok(root+c) + " " + tok(t))
			}
		}
	}
	// random longer strings
	r := &rng{s: cfg.seed}
	rs := func(alpha []string, max int) string {
		n := r.intn(max + 1)
		var sb strings.Builder
		for i := 0; i < n; i++ {
			sb.WriteString(alpha[r.intn(len(alpha))])
		}
		return sb.String()
	}
	bias := []string{"a", "B", ".", ".", "/", "/", "\\", ":", "?", "*", "[", "]", "-", "^", "é", "..", "./", "//"}
	for i := 0; i < nrand; i++ {
		osn := []string{"linux", "windows"}[r.intn(2)]
		switch r.intn(3) {
		case 0:
			emit("one " + osn + " " + tok(rs(bias, 14)))
		case 1:
			emit("two " + osn + " " + tok(rs(bias, 9)) + " " + tok(rs(bias, 9)))
		default:
			root := "/"
			if osn == "windows" {
				root = "C:\\"
			}
			emit("pi " + osn + " " + tok(root+rs([]string{"a", "b", ".", "/", "..", "\\"}, 10)) + " " + tok(rs([]string{"x", ".", "/", "..", "\\"}, 5)))
		}
	}
}
