package main

// The file-system world stream for OrefaFS: the generator, executor and snapshot of fs.go with
// OrefaFS (built from /repo) as the implementation; ml/drv_orefa.ml runs the extracted Coq model
// OrefaFS.v / OrefaWorld.v on the same histories.
// case line:     orefafs linux <umask> <snapmode> | op | op ...
// OrefaFS has no Sub: the world has one view, the file system itself, which is also the
// administrator's base view the snapshot is taken through (OrefaFS checks no permission).

import (
	"fmt"
	"io/fs"
	"strings"

	"github.com/avfs/avfs"
	"github.com/avfs/avfs/vfs/orefafs"
)

func init() { commands["orefa"] = runOrefa }

func newOrefaWorld(osname string, umask int) *fsWorld {
	if osname != "linux" {
		panic("unsupported os " + osname + " for orefafs")
	}
	avfs.SetUMask(fs.FileMode(umask))
	// acting as the administrator (uid 0, gid 0): without Options.User the owner of new files is the
	// user of avfs.NotImplementedIdm, whose ids are math.MaxInt by design
	b := orefafs.NewWithOptions(&orefafs.Options{User: huser{uid: 0, gid: 0, admin: true}})
	return &fsWorld{base: b, views: []avfs.VFS{b}}
}

func runOrefa(cfg config) {
	o := newOut(cfg.dir, cfg.name)
	defer o.close(cfg.name)
	if rl := cfg.replayLines(); rl != nil {
		for _, l := range rl {
			o.emit(l, runFSHistory(l), "")
		}
		return
	}
	nh, hl := 400, 40
	if cfg.tier == "thorough" {
		nh, hl = 6000, 80
	}
	o.rule = fmt.Sprintf("OrefaFS: %d random histories of %d calls over names {a,b,c}, state-aware path choice (existing / child of existing dir or file / missing parent / special and unclean spellings / relative), all VFS namespace calls (the refused ones included: Symlink, Readlink, EvalSymlinks, Sub), handle calls, SetUser/SetUMask; every result and the full tree snapshot (digest, taken through Lstat/ReadDir/ReadFile) after every call compared with the extracted Coq model OrefaWorld.ostep; distinct = distinct (call kind, result kind) x snapshot digests", nh, hl)
	r := &rng{s: cfg.seed*7907 + 29}
	lens := 0
	for i := 0; i < nh; i++ {
		um := r.pick2([]int{0o22, 0o22, 0, 0o77})
		hdr := fmt.Sprintf("orefafs linux %d md5", um)
		w := newFSWorld("orefafs", "linux", um)
		g := &fsGen{r: r, w: w, admin: i%2 == 0, nviews: 1}
		g.snap = w.snapshotEntries()
		var ops, outs []string
		for j := 0; j < hl; j++ {
			g.nviews = len(w.views)
			op := g.op()
			res := w.applyGuarded(strings.Fields(op))
			ops = append(ops, op)
			o.count("op:" + opKind(op))
			o.count("res:" + resKind(res))
			if res == "DEADLOCK" || res == "PANIC" {
				outs = append(outs, res+showSnapSafe("md5", w, res))
				break
			}
			g.snap = w.snapshotEntries()
			sn := showSnap("md5", g.snap)
			outs = append(outs, res+sn)
			o.distinct[opKind(op)+"/"+resKind(res)+sn] = struct{}{}
		}
		lens += len(ops)
		o.emit(hdr+" | "+strings.Join(ops, " | "), strings.Join(outs, " | "), "")
	}
	o.extra["total_calls"] = lens
	o.extra["evaluations"] = lens
}
