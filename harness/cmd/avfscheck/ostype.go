package main

// Property C17 (OS-type emulation): the file-system world stream of fs.go for BOTH emulated OS types,
// with the volume-management calls, on file systems built by NewWithOptions{OSType: ...}.
// Meant for the build with -tags avfs_setostype (the Linux-typed lines are also replayed on the untagged build).
//
// case line:     <fs> <os> <umask> <snapmode> [sd=<tok>:<perm>,...] | op | op ...
//                fs = memfs | orefafs ; os = linux | windows ; sd= replaces Options.SystemDirs
// ops:           those of fs.go, plus  VA <view> <path> | VD <view> <path> | VL <view>
// observed line: <result> #<snapshot> | ...
//                snapmode md5 / full / none as in fs.go (the snapshot lists every volume of a Windows-typed
//                file system); snapmode norm: "#<md5 of the snapshot>/<md5 of the normalised snapshot>" where
//                the normalised snapshot drops the volume name, spells paths with '/', and keeps names,
//                types, contents, link counts, same-file classes and (normalised) link targets only.

import (
	"crypto/md5"
	"encoding/hex"
	"fmt"
	"io/fs"
	"os"
	"sort"
	"strconv"
	"strings"
	"time"

	"github.com/avfs/avfs"
	"github.com/avfs/avfs/vfs/memfs"
	"github.com/avfs/avfs/vfs/orefafs"
)

func init() {
	commands["ostype"] = runOSType
}

type osWorld struct {
	*fsWorld
	fsname string
	win    bool
	sep    string
	root   string // "/" or `C:\`
}

func osTypeOf(osname string) avfs.OSType {
	switch osname {
	case "linux":
		return avfs.OsLinux
	case "windows":
		return avfs.OsWindows
	}
	panic("unsupported os " + osname)
}

func newOSWorld(fsname, osname string, umask int, dirs []avfs.DirInfo) *osWorld {
	avfs.SetUMask(fs.FileMode(umask))
	t := osTypeOf(osname)
	var b avfs.VFS
	func() {
		// a constructor that panics (it can when the requested type was refused and the file system is left
		// without a separator) is reported as a refused type
		defer func() {
			if r := recover(); r != nil {
				b = nil
			}
		}()
		switch fsname {
		case "memfs":
			b = memfs.NewWithOptions(&memfs.Options{OSType: t, SystemDirs: dirs})
		case "orefafs":
			// the administrator as an explicit user (uid 0, gid 0), as the orefa stream does
			b = orefafs.NewWithOptions(&orefafs.Options{OSType: t, SystemDirs: dirs, User: huser{uid: 0, gid: 0, admin: true}})
		default:
			panic("unsupported fs " + fsname)
		}
	}()
	if b == nil {
		return &osWorld{fsWorld: &fsWorld{}, fsname: fsname, win: osname == "windows"}
	}
	w := &osWorld{fsWorld: &fsWorld{base: b}, fsname: fsname, win: osname == "windows", sep: "/", root: "/"}
	if w.win {
		w.sep, w.root = `\`, avfs.DefaultVolume+`\`
	}
	if b.OSType() != t {
		// the build refused the requested type (no avfs_setostype tag): reported by the caller
		return w
	}
	if fsname == "memfs" {
		v0, err := b.Sub(w.root)
		if err != nil {
			// the type was accepted but the file system cannot resolve its own root (a foreign type on a build
			// without the generic path functions): the base itself is the only view
			v0 = b
		}
		w.views = []avfs.VFS{v0}
	} else {
		w.views = []avfs.VFS{b} // OrefaFS has no Sub
	}
	return w
}

func parseDirs(s string) []avfs.DirInfo {
	var ds []avfs.DirInfo
	for _, e := range strings.Split(strings.TrimPrefix(s, "sd="), ",") {
		if e == "" {
			continue
		}
		f := strings.Split(e, ":")
		ds = append(ds, avfs.DirInfo{Path: untok(f[0]), Perm: fs.FileMode(atoi64(f[1]))})
	}
	return ds
}

func showDirs(ds []avfs.DirInfo) string {
	var p []string
	for _, d := range ds {
		p = append(p, fmt.Sprintf("%s:%d", tok(d.Path), uint32(d.Perm)))
	}
	return "sd=" + strings.Join(p, ",")
}

// applyO: the volume calls, everything else is fs.go's apply
func (w *osWorld) applyO(t []string) string {
	if len(t) > 0 && (t[0] == "VA" || t[0] == "VD" || t[0] == "VL") {
		v, _, ok := w.view(t[1])
		if !ok {
			return "E FUEL"
		}
		vm, ok := v.(avfs.VolumeManager)
		if !ok {
			return "NOVM"
		}
		switch t[0] {
		case "VA":
			return resErr(vm.VolumeAdd(untok(t[2])))
		case "VD":
			return resErr(vm.VolumeDelete(untok(t[2])))
		default:
			l := append([]string(nil), vm.VolumeList()...)
			sort.Strings(l)
			ts := make([]string, len(l))
			for i, n := range l {
				ts[i] = tok(n)
			}
			return "VS " + strings.Join(ts, ",")
		}
	}
	return w.apply(t)
}

func (w *osWorld) applyGuardedO(t []string) string {
	ch := make(chan string, 1)
	go func() {
		defer func() {
			if r := recover(); r != nil {
				ch <- "PANIC"
			}
		}()
		ch <- w.applyO(t)
	}()
	select {
	case r := <-ch:
		return r
	case <-time.After(3 * time.Second):
		return "DEADLOCK"
	}
}

// ---- snapshot of every volume ----------------------------------------------------------------
func (w *osWorld) volumes() []string {
	if !w.win {
		return []string{""}
	}
	if vm, ok := w.base.(avfs.VolumeManager); ok {
		l := append([]string(nil), vm.VolumeList()...)
		sort.Strings(l)
		return l
	}
	return []string{avfs.DefaultVolume}
}

func (w *osWorld) snapshotEntriesO() []snapEntry {
	var out []snapEntry
	var files []fs.FileInfo
	b := w.base
	var walk func(p string, info fs.FileInfo, depth int)
	walk = func(p string, info fs.FileInfo, depth int) {
		if depth > snapDepth {
			return
		}
		st := b.ToSysStat(info)
		switch {
		case info.IsDir():
			out = append(out, snapEntry{path: p, kind: 'D', info: info,
				line: fmt.Sprintf("D %s %d %d %d", tok(p), uint32(info.Mode()), st.Uid(), st.Gid())})
			des, err := b.ReadDir(p)
			if err != nil {
				out = append(out, snapEntry{path: p, kind: '!', line: "!readdir " + tok(p) + " " + errCode(err)})
				return
			}
			names := make([]string, 0, len(des))
			for _, de := range des {
				names = append(names, de.Name())
			}
			sort.Strings(names)
			for _, n := range names {
				cp := p + w.sep + n
				if strings.HasSuffix(p, w.sep) {
					cp = p + n
				}
				ci, err := b.Lstat(cp)
				if err != nil {
					out = append(out, snapEntry{path: cp, kind: '!', line: "!lstat " + tok(cp) + " " + errCode(err)})
					continue
				}
				walk(cp, ci, depth+1)
			}
		case info.Mode()&fs.ModeSymlink != 0:
			t, err := b.Readlink(p)
			if err != nil {
				t = "!" + errCode(err)
			}
			out = append(out, snapEntry{path: p, kind: 'L', info: info,
				line: fmt.Sprintf("L %s %d %d %d %s", tok(p), uint32(info.Mode()), st.Uid(), st.Gid(), tok(t))})
		default:
			data, err := b.ReadFile(p)
			ds := tok(string(data))
			if err != nil {
				ds = "!" + errCode(err)
			}
			cls := -1
			for i, fi := range files {
				if b.SameFile(fi, info) {
					cls = i
					break
				}
			}
			if cls < 0 {
				files = append(files, info)
				cls = len(files) - 1
			}
			out = append(out, snapEntry{path: p, kind: 'F', info: info,
				line: fmt.Sprintf("F %s %d %d %d %d %d %s", tok(p), uint32(info.Mode()), st.Uid(), st.Gid(), st.Nlink(), cls, ds)})
		}
	}
	for _, vol := range w.volumes() {
		r := vol + w.sep
		ri, err := b.Lstat(r)
		if err != nil {
			out = append(out, snapEntry{path: r, kind: '!', line: "!lstat-root " + tok(r) + " " + errCode(err)})
			continue
		}
		walk(r, ri, 0)
	}
	return out
}

// normPath: volume dropped, '/' as separator
func (w *osWorld) normPath(p string) string {
	if w.win {
		if len(p) >= 2 && p[1] == ':' {
			p = p[2:]
		}
		p = strings.ReplaceAll(p, `\`, "/")
	}
	return p
}

// normalised snapshot: names, types, contents, link counts, same-file classes, normalised link targets
func (w *osWorld) normText(es []snapEntry) string {
	var sb strings.Builder
	for _, e := range es {
		f := strings.Fields(e.line)
		switch e.kind {
		case 'D':
			fmt.Fprintf(&sb, "D %s\n", tok(w.normPath(e.path)))
		case 'F': // F path mode uid gid nlink cls data
			fmt.Fprintf(&sb, "F %s %s %s %s\n", tok(w.normPath(e.path)), f[5], f[6], f[7])
		case 'L': // L path mode uid gid target
			fmt.Fprintf(&sb, "L %s %s\n", tok(w.normPath(e.path)), tok(w.normPath(untok(f[5]))))
		default: // an entry that could not be read: which one, not the OS-specific error value
			fmt.Fprintf(&sb, "! %s\n", tok(w.normPath(e.path)))
		}
	}
	return sb.String()
}

func (w *osWorld) showSnapO(mode string, es []snapEntry) string {
	if mode == "norm" {
		a := md5.Sum([]byte(snapText(es)))
		b := md5.Sum([]byte(w.normText(es)))
		return " #" + hex.EncodeToString(a[:]) + "/" + hex.EncodeToString(b[:])
	}
	if mode == "normfull" {
		return " #" + strings.Join(strings.Split(snapText(es), "\n"), ";") + "/" + strings.Join(strings.Split(w.normText(es), "\n"), ";")
	}
	return showSnap(mode, es)
}

func raInterruptedO(op, res string) bool {
	return (strings.HasPrefix(op, "RA ") || strings.HasPrefix(op, "VD ")) && (res == "E L13" || res == "E W5")
}

func runOSHistory(line string) string {
	parts := strings.Split(line, " | ")
	hd := strings.Fields(parts[0])
	var dirs []avfs.DirInfo
	if len(hd) > 4 {
		dirs = parseDirs(hd[4])
	}
	w := newOSWorld(hd[0], hd[1], atoi(hd[2]), dirs)
	if len(w.views) == 0 {
		if w.base == nil {
			return "NOTYPE constructor-panic"
		}
		return "NOTYPE " + strconv.Itoa(int(w.base.OSType()))
	}
	mode := hd[3]
	var outs []string
	for _, o := range parts[1:] {
		r := w.applyGuardedO(strings.Fields(o))
		if r == "DEADLOCK" || r == "PANIC" {
			outs = append(outs, r+showSnapSafe(mode, w.fsWorld, r))
			break
		}
		if raInterruptedO(o, r) {
			outs = append(outs, r+" #?")
			break
		}
		outs = append(outs, r+w.showSnapO(mode, w.snapshotEntriesO()))
	}
	return strings.Join(outs, " | ")
}

// ---- generator: fs.go's state-aware generator, its paths respelled for the emulated OS ----------
type osGen struct {
	g      *fsGen
	w      *osWorld
	curVol string   // the volume the state-aware choices look at
	vols   []string // volume names used by the volume calls
}

// which operands of an op are paths
var pathArgs = map[string][]int{"MK": {2}, "MA": {2}, "OP": {2}, "RM": {2}, "RA": {2}, "RN": {2, 3}, "LN": {2, 3}, "SL": {2, 3},
	"RL": {2}, "TR": {2}, "CM": {2}, "CO": {2}, "LC": {2}, "CT": {2}, "CD": {2}, "ST": {2}, "LS": {2}, "ES": {2}, "RD": {2},
	"RF": {2}, "WF": {2}, "SB": {2}}

// respell a path made for a POSIX tree: volume prefix for rooted paths, '\' for '/'
func (og *osGen) winPath(p string) string {
	r := og.g.r
	sl := func(s string) string {
		if r.chance(1, 12) {
			return s // Windows accepts '/' too
		}
		return strings.ReplaceAll(s, "/", `\`)
	}
	if !strings.HasPrefix(p, "/") {
		return sl(p)
	}
	switch k := r.intn(40); {
	case k < 33:
		return og.curVol + sl(p)
	case k < 35:
		return r.pick(og.vols) + sl(p)
	case k == 35:
		return sl(p) // rooted, no volume
	case k == 36:
		return strings.ToLower(og.curVol) + sl(p)
	case k == 37:
		return og.curVol + sl(strings.TrimPrefix(p, "/")) // C:a\b  (volume-relative)
	case k == 38:
		return `\\host\share` + sl(p) // UNC
	default:
		return og.curVol + sl(p)
	}
}

func (og *osGen) op() string {
	r := og.g.r
	if og.w.win {
		switch k := r.intn(60); {
		case k == 0:
			return "VL 0"
		case k < 3:
			return fmt.Sprintf("VA %d %s", r.intn(og.g.nviews), tok(r.pick(append([]string{`D:\x`, "", "D", `\\h\s\a`, "d:", "1:"}, og.vols...))))
		case k == 3:
			return fmt.Sprintf("VD %d %s", r.intn(og.g.nviews), tok(r.pick(append([]string{`D:\x`, "", "Z:"}, og.vols...))))
		case k == 4:
			og.curVol = r.pick(og.vols)
		}
	} else if r.chance(1, 60) {
		return r.pick([]string{"VL 0", "VA 0 " + tok("D:"), "VD 0 " + tok("C:")})
	}
	o := og.g.op()
	if !og.w.win {
		return o
	}
	t := strings.Fields(o)
	for _, i := range pathArgs[t[0]] {
		t[i] = tok(og.winPath(untok(t[i])))
	}
	return strings.Join(t, " ")
}

// the entries of the current volume, spelled as a POSIX tree (what fs.go's generator expects)
func (og *osGen) refresh() []snapEntry {
	es := og.w.snapshotEntriesO()
	if !og.w.win {
		og.g.snap = es
		return es
	}
	var out []snapEntry
	for _, e := range es {
		if strings.HasPrefix(e.path, og.curVol) {
			e.path = og.w.normPath(e.path)
			out = append(out, e)
		}
	}
	og.g.snap = out
	return es
}

func runOSType(cfg config) {
	o := newOut(cfg.dir, cfg.name)
	defer o.close(cfg.name)
	if rl := cfg.replayLines(); rl != nil {
		for _, l := range rl {
			parts := strings.SplitN(l, " | ", 2)
			hd := strings.Fields(parts[0])
			if len(hd) >= 4 && os.Getenv("VERIF_FS_FULLSNAP") == "1" {
				if hd[3] == "norm" {
					hd[3] = "normfull"
				} else {
					hd[3] = "full"
				}
				l = strings.Join(hd, " ")
				if len(parts) == 2 {
					l += " | " + parts[1]
				}
			}
			o.emit(l, runOSHistory(l), "")
		}
		return
	}
	nh, hl := 500, 40
	if cfg.tier == "thorough" {
		nh, hl = 5000, 80
	}
	if v := os.Getenv("VERIF_OSTYPE_HISTORIES"); v != "" {
		nh = atoi(v)
	}
	o.rule = fmt.Sprintf("%d random histories of %d calls, on Windows-typed and Linux-typed MemFS (3 of 4 histories) and OrefaFS built by NewWithOptions{OSType}: the state-aware generator of the fs stream (names {a,b,c}; existing / child of existing / missing parent / special and unclean spellings / relative paths; all namespace, handle, view, identity and umask calls) with, for the Windows type, paths respelled with a volume (C:, a second and third volume, lower case, none, volume-relative, UNC) and '\\' or '/' separators, plus VolumeAdd/VolumeDelete/VolumeList; every result (error numbers included) and the snapshot digest of every volume after every call compared with the extracted Coq model", nh, hl)
	r := &rng{s: cfg.seed*104729 + 71}
	lens := 0
	for i := 0; i < nh; i++ {
		um := r.pick2([]int{0o22, 0o22, 0, 0o77})
		osname := "windows"
		if i%3 == 2 {
			osname = "linux"
		}
		fsname := "memfs"
		if i%4 == 3 {
			fsname = "orefafs"
			osname = []string{"windows", "linux"}[(i/4)%2]
		}
		hdr := fmt.Sprintf("%s %s %d md5", fsname, osname, um)
		w := newOSWorld(fsname, osname, um, nil)
		if len(w.views) == 0 {
			o.emit(hdr, "NOTYPE", "")
			continue
		}
		g := &fsGen{r: r, w: w.fsWorld, admin: i%2 == 0, nviews: 1}
		og := &osGen{g: g, w: w, curVol: "C:", vols: []string{"C:", "D:", "E:"}}
		og.refresh()
		var ops, outs []string
		for j := 0; j < hl; j++ {
			g.nviews = len(w.views)
			op := og.op()
			res := w.applyGuardedO(strings.Fields(op))
			ops = append(ops, op)
			o.count("op:" + fsname + ":" + osname + ":" + opKind(op))
			o.count("res:" + fsname + ":" + osname + ":" + resKind(res))
			if res == "DEADLOCK" || res == "PANIC" {
				outs = append(outs, res+showSnapSafe("md5", w.fsWorld, res))
				break
			}
			if raInterruptedO(op, res) {
				outs = append(outs, res+" #?")
				break
			}
			sn := w.showSnapO("md5", og.refresh())
			outs = append(outs, res+sn)
			o.distinct[fsname+osname+"/"+opKind(op)+"/"+resKind(res)+sn] = struct{}{}
		}
		lens += len(ops)
		o.emit(hdr+" | "+strings.Join(ops, " | "), strings.Join(outs, " | "), "")
	}
	o.extra["total_calls"] = lens
	o.extra["evaluations"] = lens
}

// ---- what a freshly constructed file system reports ----------------------------------------------------------
// case line:     info <fs> <os> <tag|notag>
// observed line: refused type=<n> sep=<n>   (SetOSType returned ErrSetOSType: the type is not the requested one)
//
//	| type=<n> sep=<n> feat=<0|1> cwd=<tok> vols=<tok,..> dmode=<n> fmode=<n> volmgr=<0|1>
func init() { commands["ostypeinfo"] = runOSTypeInfo }

func osInfo(fsname, osname string) string {
	w := newOSWorld(fsname, osname, 0o22, nil)
	b := w.base
	if b == nil {
		return "refused constructor-panic"
	}
	if b.OSType() != osTypeOf(osname) {
		// NewWithOptions ignores the error of SetOSType: the type and the separator keep their zero values
		return fmt.Sprintf("refused type=%d sep=%d", int(b.OSType()), int(b.PathSeparator()))
	}
	feat := 0
	if b.HasFeature(avfs.FeatSetOSType) {
		feat = 1
	}
	cwd, _ := b.Getwd()
	var vols []string
	vm, isVM := b.(avfs.VolumeManager)
	volmgr := 0
	if isVM {
		volmgr = 1
		for _, v := range vm.VolumeList() {
			vols = append(vols, tok(v))
		}
		sort.Strings(vols)
	}
	_ = b.SetUMask(0)
	d := avfs.Join(b, w.root, "tmp", "zd")
	f := avfs.Join(b, w.root, "tmp", "zf")
	if fsname == "memfs" && osname == "linux" || fsname == "orefafs" && osname == "linux" {
		d, f = "/tmp/zd", "/tmp/zf"
	} else {
		_ = b.MkdirAll(avfs.Join(b, w.root, "tmp"), 0o777)
	}
	dm, fm := "?", "?"
	if err := b.Mkdir(d, 0); err == nil {
		if info, err := b.Lstat(d); err == nil {
			dm = strconv.FormatUint(uint64(info.Mode()), 10)
		}
	}
	if h, err := b.OpenFile(f, os.O_CREATE|os.O_WRONLY, 0); err == nil {
		h.Close()
		if info, err := b.Lstat(f); err == nil {
			fm = strconv.FormatUint(uint64(info.Mode()), 10)
		}
	}
	return fmt.Sprintf("type=%d sep=%d feat=%d cwd=%s vols=%s dmode=%s fmode=%s volmgr=%d", int(b.OSType()), int(b.PathSeparator()), feat, tok(cwd),
		strings.Join(vols, ","), dm, fm, volmgr)
}

func runOSTypeInfo(cfg config) {
	o := newOut(cfg.dir, cfg.name)
	defer o.close(cfg.name)
	tag := "notag"
	if avfs.BuildFeatures()&avfs.FeatSetOSType != 0 {
		tag = "tag"
	}
	if rl := cfg.replayLines(); rl != nil {
		for _, l := range rl {
			f := strings.Fields(l)
			if len(f) == 4 && f[0] == "info" {
				o.emit(fmt.Sprintf("info %s %s %s", f[1], f[2], tag), osInfo(f[1], f[2]), "")
			}
		}
		return
	}
	for _, fsname := range []string{"memfs", "orefafs"} {
		for _, osname := range []string{"linux", "windows"} {
			o.emit(fmt.Sprintf("info %s %s %s", fsname, osname, tag), osInfo(fsname, osname), fsname+osname)
		}
	}
	o.rule = "OSType(), PathSeparator(), HasFeature(FeatSetOSType), Getwd(), VolumeList(), the mode of a directory and of a file created with perm 0 under umask 0, of a freshly constructed MemFS and OrefaFS of each OS type, on this build"
}
