// Command avfscheck drives the avfs implementation (built from /repo's working
// tree) with generated inputs and records, per case, the input in the syntax the
// extracted Coq model's driver reads and what the implementation did in the
// syntax the driver prints.  bin/check diffs the two line by line.
package main

import (
	"bufio"
	"encoding/hex"
	"encoding/json"
	"flag"
	"fmt"
	"os"
	"path/filepath"
	"sort"
	"strings"
)

// ---- deterministic PRNG (splitmix64): every random choice derives from -seed.
type rng struct{ s uint64 }

func (r *rng) next() uint64 {
	r.s += 0x9e3779b97f4a7c15
	z := r.s
	z = (z ^ (z >> 30)) * 0xbf58476d1ce4e5b9
	z = (z ^ (z >> 27)) * 0x94d049bb133111eb
	return z ^ (z >> 31)
}
func (r *rng) intn(n int) int {
	if n <= 0 {
		return 0
	}
	return int(r.next() % uint64(n))
}
func (r *rng) pick(xs []string) string { return xs[r.intn(len(xs))] }
func (r *rng) chance(num, den int) bool { return r.intn(den) < num }

// ---- token syntax
func tok(s string) string { return "s" + hex.EncodeToString([]byte(s)) }
func untok(t string) string {
	b, err := hex.DecodeString(strings.TrimPrefix(t, "s"))
	if err != nil {
		panic(err)
	}
	return string(b)
}

// ---- output
type out struct {
	dir      string
	cases    *bufio.Writer
	observed *bufio.Writer
	fc, fo   *os.File
	n        int
	dist     map[string]int // input / outcome distribution
	distinct map[string]struct{}
	samples  []string
	rule     string
	extra    map[string]any
}

func newOut(dir, name string) *out {
	if err := os.MkdirAll(dir, 0o755); err != nil {
		panic(err)
	}
	fc, err := os.Create(filepath.Join(dir, name+".cases"))
	if err != nil {
		panic(err)
	}
	fo, err := os.Create(filepath.Join(dir, name+".observed"))
	if err != nil {
		panic(err)
	}
	return &out{dir: dir, fc: fc, fo: fo, cases: bufio.NewWriterSize(fc, 1<<20), observed: bufio.NewWriterSize(fo, 1<<20),
		dist: map[string]int{}, distinct: map[string]struct{}{}, extra: map[string]any{}}
}

// emit records one case. nontrivialKey, when non-empty, identifies the case for
// the distinct-nontrivial count.
func (o *out) emit(caseLine, observedLine, nontrivialKey string) {
	o.cases.WriteString(caseLine)
	o.cases.WriteByte('\n')
	o.observed.WriteString(observedLine)
	o.observed.WriteByte('\n')
	o.n++
	if nontrivialKey != "" {
		o.distinct[nontrivialKey] = struct{}{}
	}
	if len(o.samples) < 5 && (o.n == 1 || o.n%997 == 0) {
		o.samples = append(o.samples, caseLine+" => "+observedLine)
	}
}
func (o *out) count(k string) { o.dist[k]++ }

func (o *out) close(name string) {
	o.cases.Flush()
	o.observed.Flush()
	o.fc.Close()
	o.fo.Close()
	keys := make([]string, 0, len(o.dist))
	for k := range o.dist {
		keys = append(keys, k)
	}
	sort.Strings(keys)
	st := map[string]any{
		"evaluations":         o.n,
		"distinct_nontrivial": len(o.distinct),
		"rule":                o.rule,
		"samples":             o.samples,
		"distribution":        o.dist,
	}
	for k, v := range o.extra {
		st[k] = v
	}
	b, _ := json.MarshalIndent(st, "", " ")
	if err := os.WriteFile(filepath.Join(o.dir, name+".stats.json"), b, 0o644); err != nil {
		panic(err)
	}
}

type config struct {
	seed   uint64
	tier   string
	dir    string
	replay string // file of case lines to re-execute instead of generating
	name   string // base name of the output files
}

// replayLines returns the lines of the replay file, or nil when generating.
func (c config) replayLines() []string {
	if c.replay == "" {
		return nil
	}
	b, err := os.ReadFile(c.replay)
	if err != nil {
		panic(err)
	}
	var ls []string
	for _, l := range strings.Split(string(b), "\n") {
		if strings.TrimSpace(l) != "" {
			ls = append(ls, l)
		}
	}
	return ls
}

var commands = map[string]func(cfg config){}

func main() {
	if len(os.Args) < 2 {
		fmt.Fprintln(os.Stderr, "usage: avfscheck <command> [-seed N] [-tier quick|thorough] [-out DIR]")
		os.Exit(2)
	}
	cmd := os.Args[1]
	fs := flag.NewFlagSet(cmd, flag.ExitOnError)
	seed := fs.Uint64("seed", 1, "PRNG seed")
	tier := fs.String("tier", "quick", "quick|thorough")
	dir := fs.String("out", "work", "output directory")
	replay := fs.String("replay", "", "file of case lines to re-execute")
	name := fs.String("name", cmd, "base name of the output files")
	fs.Parse(os.Args[2:])
	f, ok := commands[cmd]
	if !ok {
		fmt.Fprintln(os.Stderr, "unknown command", cmd)
		os.Exit(2)
	}
	f(config{seed: *seed, tier: *tier, dir: *dir, replay: *replay, name: *name})
}
