package main

// Property C10: BasePathFS confines all access to its base directory and acts as a chroot.
//
// Two streams:
//   bpstr  string level: ToBasePath / FromBasePath / Abs / Getwd of a BasePathFS whose base reports an
//          arbitrary current directory, against the extracted Coq model (BasePath.v).
//   bpfs   file-system level: histories of path-taking calls through BasePathFS over a RECORDING base
//          (every path that reaches the base and every path the base returns is logged), in lock-step
//          with a standalone reference file system holding B's content, with everything outside B
//          snapshotted around every call and a secret planted outside B.
//          The model predicts the paths handed to the base and the translated-back results and
//          evaluates confinement of every logged path; the harness evaluates reference / outside /
//          leak and the model side prints the constant expectation.

import (
	"crypto/md5"
	"encoding/hex"
	"errors"
	"fmt"
	"io/fs"
	"os"
	"path/filepath"
	"sort"
	"strings"
	"sync"
	"time"

	"github.com/avfs/avfs"
	"github.com/avfs/avfs/vfs/basepathfs"
	"github.com/avfs/avfs/vfs/memfs"
	"github.com/avfs/avfs/vfs/orefafs"
)

func init() {
	commands["bpstr"] = runBpStr
	commands["bpfs"] = runBpFs
}

// ---------------------------------------------------------------------------
// recording base

type bpRec struct {
	meth string
	in   []string // path arguments received by the base
	out  []string // paths returned by the base (error paths first, then string results)
}

type recFS struct {
	avfs.VFS
	log       *[]bpRec
	basePanic bool // a call of the base itself panicked (a defect of the base, not of the wrapper)
}

func (r *recFS) guardBase() {
	if x := recover(); x != nil {
		r.basePanic = true
		panic(x)
	}
}

func errPaths(err error) []string {
	var pe *fs.PathError
	var le *os.LinkError
	switch {
	case err == nil:
		return nil
	case errors.As(err, &pe):
		return []string{pe.Path}
	case errors.As(err, &le):
		return []string{le.Old, le.New}
	}
	return nil
}

func (r *recFS) add(meth string, in []string, err error, strs ...string) {
	*r.log = append(*r.log, bpRec{meth: meth, in: in, out: append(errPaths(err), strs...)})
}

func (r *recFS) Abs(path string) (string, error) {
	defer r.guardBase()
	s, err := r.VFS.Abs(path)
	r.add("Abs", []string{path}, err, s)
	return s, err
}
func (r *recFS) Chdir(dir string) error {
	defer r.guardBase()
	err := r.VFS.Chdir(dir)
	r.add("Chdir", []string{dir}, err)
	return err
}
func (r *recFS) Chmod(name string, mode fs.FileMode) error {
	defer r.guardBase()
	err := r.VFS.Chmod(name, mode)
	r.add("Chmod", []string{name}, err)
	return err
}
func (r *recFS) Chown(name string, uid, gid int) error {
	defer r.guardBase()
	err := r.VFS.Chown(name, uid, gid)
	r.add("Chown", []string{name}, err)
	return err
}
func (r *recFS) Chtimes(name string, a, m time.Time) error {
	defer r.guardBase()
	err := r.VFS.Chtimes(name, a, m)
	r.add("Chtimes", []string{name}, err)
	return err
}
func (r *recFS) Create(name string) (avfs.File, error) {
	defer r.guardBase()
	f, err := r.VFS.Create(name)
	r.add("Create", []string{name}, err)
	return r.wrapFile(f, err), err
}
func (r *recFS) CreateTemp(dir, pattern string) (avfs.File, error) {
	defer r.guardBase()
	f, err := r.VFS.CreateTemp(dir, pattern)
	r.add("CreateTemp", []string{dir}, err)
	return r.wrapFile(f, err), err
}
func (r *recFS) EvalSymlinks(path string) (string, error) {
	defer r.guardBase()
	s, err := r.VFS.EvalSymlinks(path)
	r.add("EvalSymlinks", []string{path}, err, s)
	return s, err
}
func (r *recFS) Getwd() (string, error) {
	defer r.guardBase()
	s, err := r.VFS.Getwd()
	r.add("Getwd", nil, err, s)
	return s, err
}
func (r *recFS) Glob(pattern string) ([]string, error) {
	defer r.guardBase()
	m, err := r.VFS.Glob(pattern)
	r.add("Glob", []string{pattern}, err, append([]string(nil), m...)...)
	return m, err
}
func (r *recFS) Lchown(name string, uid, gid int) error {
	defer r.guardBase()
	err := r.VFS.Lchown(name, uid, gid)
	r.add("Lchown", []string{name}, err)
	return err
}
func (r *recFS) Link(o, n string) error {
	defer r.guardBase()
	err := r.VFS.Link(o, n)
	r.add("Link", []string{o, n}, err)
	return err
}
func (r *recFS) Lstat(name string) (fs.FileInfo, error) {
	defer r.guardBase()
	i, err := r.VFS.Lstat(name)
	r.add("Lstat", []string{name}, err)
	return i, err
}
func (r *recFS) Mkdir(name string, perm fs.FileMode) error {
	defer r.guardBase()
	err := r.VFS.Mkdir(name, perm)
	r.add("Mkdir", []string{name}, err)
	return err
}
func (r *recFS) MkdirAll(name string, perm fs.FileMode) error {
	defer r.guardBase()
	err := r.VFS.MkdirAll(name, perm)
	r.add("MkdirAll", []string{name}, err)
	return err
}
func (r *recFS) MkdirTemp(dir, pattern string) (string, error) {
	defer r.guardBase()
	s, err := r.VFS.MkdirTemp(dir, pattern)
	r.add("MkdirTemp", []string{dir}, err, s)
	return s, err
}
func (r *recFS) Open(name string) (avfs.File, error) {
	defer r.guardBase()
	f, err := r.VFS.Open(name)
	r.add("Open", []string{name}, err)
	return r.wrapFile(f, err), err
}
func (r *recFS) OpenFile(name string, flag int, perm fs.FileMode) (avfs.File, error) {
	defer r.guardBase()
	f, err := r.VFS.OpenFile(name, flag, perm)
	r.add("OpenFile", []string{name}, err)
	return r.wrapFile(f, err), err
}
func (r *recFS) ReadDir(name string) ([]fs.DirEntry, error) {
	defer r.guardBase()
	d, err := r.VFS.ReadDir(name)
	r.add("ReadDir", []string{name}, err)
	return d, err
}
func (r *recFS) ReadFile(name string) ([]byte, error) {
	defer r.guardBase()
	b, err := r.VFS.ReadFile(name)
	r.add("ReadFile", []string{name}, err)
	return b, err
}
func (r *recFS) Readlink(name string) (string, error) {
	defer r.guardBase()
	s, err := r.VFS.Readlink(name)
	r.add("Readlink", []string{name}, err, s)
	return s, err
}
func (r *recFS) Remove(name string) error {
	defer r.guardBase()
	err := r.VFS.Remove(name)
	r.add("Remove", []string{name}, err)
	return err
}
func (r *recFS) RemoveAll(name string) error {
	defer r.guardBase()
	err := r.VFS.RemoveAll(name)
	r.add("RemoveAll", []string{name}, err)
	return err
}
func (r *recFS) Rename(o, n string) error {
	defer r.guardBase()
	err := r.VFS.Rename(o, n)
	r.add("Rename", []string{o, n}, err)
	return err
}
func (r *recFS) Stat(name string) (fs.FileInfo, error) {
	defer r.guardBase()
	i, err := r.VFS.Stat(name)
	r.add("Stat", []string{name}, err)
	return i, err
}
func (r *recFS) Sub(dir string) (avfs.VFS, error) {
	defer r.guardBase()
	v, err := r.VFS.Sub(dir)
	r.add("Sub", []string{dir}, err)
	return v, err
}
func (r *recFS) Symlink(o, n string) error {
	defer r.guardBase()
	err := r.VFS.Symlink(o, n)
	r.add("Symlink", []string{o, n}, err)
	return err
}
func (r *recFS) Truncate(name string, size int64) error {
	defer r.guardBase()
	err := r.VFS.Truncate(name, size)
	r.add("Truncate", []string{name}, err)
	return err
}
func (r *recFS) WalkDir(root string, fn fs.WalkDirFunc) error {
	defer r.guardBase()
	err := r.VFS.WalkDir(root, fn)
	r.add("WalkDir", []string{root}, err)
	return err
}
func (r *recFS) WriteFile(name string, data []byte, perm fs.FileMode) error {
	defer r.guardBase()
	err := r.VFS.WriteFile(name, data, perm)
	r.add("WriteFile", []string{name}, err)
	return err
}

type bpRecFile struct {
	avfs.File
	r *recFS
}

func (r *recFS) wrapFile(f avfs.File, err error) avfs.File {
	if err != nil {
		return f
	}
	return &bpRecFile{File: f, r: r}
}
func (f *bpRecFile) Name() string {
	s := f.File.Name()
	f.r.add("f.Name", nil, nil, s)
	return s
}
func (f *bpRecFile) Chdir() error { err := f.File.Chdir(); f.r.add("f.Chdir", nil, err); return err }
func (f *bpRecFile) Chmod(m fs.FileMode) error {
	err := f.File.Chmod(m)
	f.r.add("f.Chmod", nil, err)
	return err
}
func (f *bpRecFile) Close() error { err := f.File.Close(); f.r.add("f.Close", nil, err); return err }
func (f *bpRecFile) Read(b []byte) (int, error) {
	n, err := f.File.Read(b)
	f.r.add("f.Read", nil, err)
	return n, err
}
func (f *bpRecFile) ReadDir(n int) ([]fs.DirEntry, error) {
	d, err := f.File.ReadDir(n)
	f.r.add("f.ReadDir", nil, err)
	return d, err
}
func (f *bpRecFile) Readdirnames(n int) ([]string, error) {
	d, err := f.File.Readdirnames(n)
	f.r.add("f.Readdirnames", nil, err)
	return d, err
}
func (f *bpRecFile) Stat() (fs.FileInfo, error) {
	i, err := f.File.Stat()
	f.r.add("f.Stat", nil, err)
	return i, err
}
func (f *bpRecFile) Write(b []byte) (int, error) {
	n, err := f.File.Write(b)
	f.r.add("f.Write", nil, err)
	return n, err
}
func (f *bpRecFile) Chown(uid, gid int) error {
	err := f.File.Chown(uid, gid)
	f.r.add("f.Chown", nil, err)
	return err
}
func (f *bpRecFile) ReadAt(b []byte, off int64) (int, error) {
	n, err := f.File.ReadAt(b, off)
	f.r.add("f.ReadAt", nil, err)
	return n, err
}
func (f *bpRecFile) Seek(off int64, whence int) (int64, error) {
	n, err := f.File.Seek(off, whence)
	f.r.add("f.Seek", nil, err)
	return n, err
}
func (f *bpRecFile) Sync() error { err := f.File.Sync(); f.r.add("f.Sync", nil, err); return err }
func (f *bpRecFile) Truncate(size int64) error {
	err := f.File.Truncate(size)
	f.r.add("f.Truncate", nil, err)
	return err
}
func (f *bpRecFile) WriteAt(b []byte, off int64) (int, error) {
	n, err := f.File.WriteAt(b, off)
	f.r.add("f.WriteAt", nil, err)
	return n, err
}
func (f *bpRecFile) WriteString(s string) (int, error) {
	n, err := f.File.WriteString(s)
	f.r.add("f.WriteString", nil, err)
	return n, err
}

// ---------------------------------------------------------------------------
// worlds

const bpSecret = "TOPSECRET-7f3a"

type bpWorld struct {
	kind  string   // memfs | orefafs
	B     string   // base path in the base file system
	base  avfs.VFS // the real base (unwrapped), for snapshots
	rec   *recFS
	log   []bpRec
	bp    *basepathfs.BasePathFS
	ref   avfs.VFS // standalone reference holding B's content (nil: no reference)
	roots []string // top-level names of the base to snapshot when "/" cannot be listed (OrefaFS)
	dead  bool     // the base panicked: the rest of the history is skipped
	links bool     // symbolic links inside B lead outside (created through the base): no reference, no leak test
}

func newBase(kind string) avfs.VFS {
	if kind == "orefafs" {
		return orefafs.New()
	}
	return memfs.New()
}

// populate creates B's content below root ("" for the standalone reference).
func populate(v avfs.VFS, root string) {
	must := func(err error) {
		if err != nil {
			panic(fmt.Sprintf("populate %s: %v", root, err))
		}
	}
	if root != "" {
		must(v.MkdirAll(root, 0o755))
		for _, d := range avfs.SystemDirs(v, root) {
			must(v.MkdirAll(d.Path, d.Perm))
			must(v.Chmod(d.Path, d.Perm))
		}
	}
	must(v.MkdirAll(root+"/a/b", 0o755))
	must(v.WriteFile(root+"/a/f", []byte("fa"), 0o644))
	must(v.WriteFile(root+"/b", []byte("fb"), 0o644))
	must(v.MkdirAll(root+"/c", 0o755))
	must(v.WriteFile(root+"/c/a", []byte("fca"), 0o644))
}

// newWorld: kind is memfs | orefafs | memfs-links; given is the base path AS GIVEN to the constructor
// (possibly an unclean spelling: "/c/", "//c", "/a/../c"), B its cleaned form.
func newWorld(kind, given string) *bpWorld {
	B := filepath.Clean(given)
	w := &bpWorld{kind: kind, B: B, links: kind == "memfs-links"}
	w.base = newBase(kind)
	must := func(err error) {
		if err != nil {
			panic(fmt.Sprintf("world %s %s: %v", kind, B, err))
		}
	}
	// outside of B: a secret, a sibling whose name extends B's, and names that also exist inside
	if B != "/" {
		must(w.base.WriteFile("/secret", []byte(bpSecret), 0o644))
		must(w.base.MkdirAll(B+"c", 0o755)) // "/cc" for B="/c": a string prefix that is not a path prefix
		must(w.base.WriteFile(B+"c/secret2", []byte(bpSecret+"2"), 0o644))
		must(w.base.MkdirAll("/a", 0o755))
		must(w.base.WriteFile("/a/f", []byte(bpSecret+"3"), 0o644))
		must(w.base.WriteFile("/b", []byte(bpSecret+"4"), 0o644))
		populate(w.base, B)
	} else {
		populate(w.base, "")
	}
	w.roots = []string{"/secret", "/a", "/b", "/home", "/root", "/tmp", B + "c", "/evil", "/nl", "/nr", "/x"}
	w.rec = &recFS{VFS: w.base, log: &w.log}
	if w.links {
		// siblings of B whose names EXTEND B's name (string prefix, not path prefix) and, inside B, symbolic
		// links created through the base (the wrapper refuses Symlink) to them and to other places outside,
		// with absolute and relative targets. No reference and no leak test in this world: what is checked
		// is the model's prediction of every translated-back path (identity outside B) and "never a panic".
		must(w.base.MkdirAll(B+".old/d", 0o755))
		must(w.base.WriteFile(B+".old/f", []byte("old"), 0o644))
		must(w.base.MkdirAll(B+"x", 0o755))
		must(w.base.WriteFile(B+"x/f", []byte("x"), 0o644))
		rel := "../" + filepath.Base(B)
		must(w.base.Symlink(B+".old", B+"/lo"))
		must(w.base.Symlink(rel+"x", B+"/lx"))
		must(w.base.Symlink("/secret", B+"/ls"))
		must(w.base.Symlink("/a", B+"/la"))
		must(w.base.Symlink(B+"/a", B+"/li"))
		must(w.base.Symlink(rel+".old/f", B+"/a/lf"))
	}
	w.bp = basepathfs.New(w.rec, given)
	w.log = w.log[:0]
	if kind == "memfs" {
		ref := memfs.New()
		populate(ref, "")
		// a standalone file system starts in "/" (MemFS leaves its current directory unset)
		must(ref.Chdir("/"))
		w.ref = ref
	}
	return w
}

// snapshot of the tree below root in v, paths printed relative to strip; skip (if non-empty) is a subtree left out.
func snapTree(v avfs.VFS, root, skip, strip string, sb *strings.Builder) {
	info, err := v.Lstat(root)
	if err != nil {
		fmt.Fprintf(sb, "%s:!%v;", relTo(root, strip), errors.Unwrap(err))
		return
	}
	snapNode(v, root, info, skip, strip, sb)
}

func relTo(p, strip string) string {
	r := strings.TrimPrefix(p, strip)
	if r == "" {
		return "/"
	}
	return r
}

func snapNode(v avfs.VFS, p string, info fs.FileInfo, skip, strip string, sb *strings.Builder) {
	if skip != "" && p == skip {
		return
	}
	fmt.Fprintf(sb, "%s:%v", relTo(p, strip), info.Mode())
	if info.Mode().IsRegular() {
		b, err := v.ReadFile(p)
		fmt.Fprintf(sb, ":%d:%x:%v", info.Size(), md5.Sum(b), err != nil)
	}
	sb.WriteByte(';')
	if !info.IsDir() {
		return
	}
	des, err := v.ReadDir(p)
	if err != nil {
		fmt.Fprintf(sb, "%s:!readdir;", relTo(p, strip))
		return
	}
	for _, de := range des {
		ci, err := de.Info()
		if err != nil {
			continue
		}
		c := p + "/" + de.Name()
		if p == "/" {
			c = "/" + de.Name()
		}
		snapNode(v, c, ci, skip, strip, sb)
	}
}

// outside: everything of the base that is not below B.
func (w *bpWorld) outside() string {
	var sb strings.Builder
	if w.B == "/" {
		return ""
	}
	if w.listsRoot() {
		snapTree(w.base, "/", w.B, "", &sb)
		return sb.String()
	}
	// an OrefaFS that cannot list its root (root stored under the key ""): snapshot the known top-level
	// names (and the names an escape would create)
	for _, r := range w.roots {
		if r == w.B {
			continue
		}
		snapTree(w.base, r, w.B, "", &sb)
	}
	return sb.String()
}

// listsRoot: the base can stat and list "/" (MemFS; OrefaFS once its root key is repaired).
func (w *bpWorld) listsRoot() bool {
	if w.kind != "orefafs" {
		return true
	}
	if _, err := w.base.Lstat("/"); err != nil {
		return false
	}
	_, err := w.base.ReadDir("/")
	return err == nil
}

// inside: B's subtree in the base, with paths made relative to B.
func (w *bpWorld) inside() string {
	var sb strings.Builder
	strip := w.B
	if strip == "/" {
		strip = ""
	}
	snapTree(w.base, w.B, "", strip, &sb)
	return sb.String()
}

func refTree(ref avfs.VFS) string {
	var sb strings.Builder
	snapTree(ref, "/", "", "", &sb)
	return sb.String()
}

// ---------------------------------------------------------------------------
// one call, on any VFS

type callRes struct {
	kind     string   // ok | err | PANIC
	errStr   string   // inner error
	errPaths []string // Path / Old,New of the returned error
	strs     []string // returned paths (Abs, Getwd, Glob, File.Name, MkdirTemp)
	data     string   // other results, canonical
	tmp      string   // a temporary entry created by the call (to be removed for the tree comparison)
}

func innerErr(err error) string {
	var pe *fs.PathError
	var le *os.LinkError
	switch {
	case errors.As(err, &pe):
		return fmt.Sprint(pe.Err)
	case errors.As(err, &le):
		return fmt.Sprint(le.Err)
	}
	return fmt.Sprint(err)
}

func infoStr(i fs.FileInfo) string {
	if i == nil {
		return "nil"
	}
	sz := i.Size()
	if i.IsDir() {
		sz = 0
	}
	return fmt.Sprintf("%s|%v|%d", i.Name(), i.Mode(), sz)
}

var bpT0 = time.Unix(1_600_000_000, 0)

func doCall(v avfs.VFS, op string, a []string) (res callRes) {
	defer func() {
		if r := recover(); r != nil {
			res = callRes{kind: "PANIC", data: fmt.Sprint(r)}
		}
	}()
	var err error
	arg := func(i int) string {
		if i < len(a) {
			return a[i]
		}
		return ""
	}
	switch op {
	case "Stat":
		var i fs.FileInfo
		i, err = v.Stat(arg(0))
		if err == nil {
			res.data = infoStr(i)
		}
	case "Lstat":
		var i fs.FileInfo
		i, err = v.Lstat(arg(0))
		if err == nil {
			res.data = infoStr(i)
		}
	case "Abs":
		var s string
		s, err = v.Abs(arg(0))
		res.strs = []string{s}
	case "Getwd":
		var s string
		s, err = v.Getwd()
		res.strs = []string{s}
	case "Glob":
		var m []string
		m, err = v.Glob(arg(0))
		res.strs = m
	case "ReadFile":
		var b []byte
		b, err = v.ReadFile(arg(0))
		res.data = string(b)
	case "ReadDir":
		var des []fs.DirEntry
		des, err = v.ReadDir(arg(0))
		var ns []string
		for _, d := range des {
			ns = append(ns, d.Name())
		}
		res.data = strings.Join(ns, ",")
	case "Open":
		var f avfs.File
		f, err = v.Open(arg(0))
		if err == nil {
			res.strs = []string{f.Name()}
			names, e1 := f.Readdirnames(-1)
			sort.Strings(names)
			b := make([]byte, 8)
			n, e2 := f.Read(b)
			res.data = fmt.Sprintf("%v|%v|%s|%v", names, e1 != nil, b[:n], e2 != nil)
			for _, e := range []error{e1, e2} {
				res.errPaths = append(res.errPaths, errPaths(e)...)
			}
			err = f.Close()
		}
	case "FileR", "FileW":
		// every method of the handle, on the open handle (several of them must fail: ReadDir on a file,
		// Read on a directory, Write on a read-only handle, Seek with a bad whence, Chdir on a file ...)
		// and again after Close; every path of every returned error and Name() are collected in order
		flag := os.O_RDONLY
		if op == "FileW" {
			flag = os.O_WRONLY | os.O_CREATE
		}
		f, oerr := v.OpenFile(arg(0), flag, 0o644)
		if oerr != nil {
			err = oerr
			break
		}
		var outc, paths []string
		note := func(m string, e error) {
			if e == nil {
				outc = append(outc, m+":ok")
			} else {
				outc = append(outc, m+":"+innerErr(e))
			}
			paths = append(paths, errPaths(e)...)
		}
		buf := make([]byte, 4)
		round := func() {
			paths = append(paths, f.Name())
			_, e := f.Stat()
			note("Stat", e)
			_, e = f.ReadDir(-1)
			note("ReadDir", e)
			_, e = f.Readdirnames(-1)
			note("Readdirnames", e)
			_, e = f.Read(buf)
			note("Read", e)
			_, e = f.ReadAt(buf, 0)
			note("ReadAt", e)
			_, e = f.Write([]byte("x"))
			note("Write", e)
			_, e = f.WriteAt([]byte("y"), 1)
			note("WriteAt", e)
			_, e = f.WriteString("z")
			note("WriteString", e)
			_, e = f.Seek(0, 5)
			note("SeekWhence", e)
			_, e = f.Seek(-1, 0)
			note("SeekNeg", e)
			_, e = f.Seek(0, 0)
			note("Seek", e)
			note("Truncate", f.Truncate(1))
			note("Sync", f.Sync())
			note("Chmod", f.Chmod(0o640))
			note("Chown", f.Chown(0, 0))
			note("Chdir", f.Chdir())
		}
		round()
		note("Close", f.Close())
		round()
		note("Close2", f.Close())
		res.data = strings.Join(outc, ",")
		res.errPaths = paths
	case "WalkDir":
		var seen []string
		err = v.WalkDir(arg(0), func(p string, d fs.DirEntry, e error) error {
			if e != nil {
				seen = append(seen, p+"!"+innerErr(e))
				res.errPaths = append(res.errPaths, errPaths(e)...)
				return nil
			}
			seen = append(seen, p)
			return nil
		})
		res.data = strings.Join(seen, ",")
	case "Sub":
		_, err = v.Sub(arg(0))
	case "Mkdir":
		err = v.Mkdir(arg(0), 0o755)
	case "MkdirAll":
		err = v.MkdirAll(arg(0), 0o755)
	case "WriteFile":
		err = v.WriteFile(arg(0), []byte("w:"+arg(0)), 0o644)
	case "Create":
		var f avfs.File
		f, err = v.Create(arg(0))
		if err == nil {
			res.strs = []string{f.Name()}
			err = f.Close()
		}
	case "OpenFileC":
		var f avfs.File
		f, err = v.OpenFile(arg(0), os.O_CREATE|os.O_EXCL|os.O_RDWR, 0o600)
		if err == nil {
			res.strs = []string{f.Name()}
			_, _ = f.Write([]byte("x"))
			err = f.Close()
		}
	case "Chmod":
		err = v.Chmod(arg(0), 0o700)
	case "Chown":
		err = v.Chown(arg(0), 0, 0)
	case "Lchown":
		err = v.Lchown(arg(0), 0, 0)
	case "Chtimes":
		err = v.Chtimes(arg(0), bpT0, bpT0)
	case "Truncate":
		err = v.Truncate(arg(0), 1)
	case "Chdir":
		err = v.Chdir(arg(0))
	case "FChdir":
		var f avfs.File
		f, err = v.Open(arg(0))
		if err == nil {
			err = f.Chdir()
			res.errPaths = append(res.errPaths, errPaths(err)...)
			res.data = fmt.Sprint(err != nil)
			err = f.Close()
		}
	case "Remove":
		err = v.Remove(arg(0))
	case "RemoveAll":
		err = v.RemoveAll(arg(0))
	case "Link":
		err = v.Link(arg(0), arg(1))
	case "Rename":
		err = v.Rename(arg(0), arg(1))
	case "Symlink":
		err = v.Symlink(arg(0), arg(1))
	case "Readlink":
		_, err = v.Readlink(arg(0))
	case "EvalSymlinks":
		_, err = v.EvalSymlinks(arg(0))
	case "CreateTemp":
		var f avfs.File
		f, err = v.CreateTemp(arg(0), "t*")
		if err == nil {
			n := f.Name()
			res.tmp = n
			res.strs = []string{filepath.Dir(n)}
			res.data = fmt.Sprint(strings.HasPrefix(filepath.Base(n), "t"))
			err = f.Close()
		}
	case "MkdirTemp":
		var n string
		n, err = v.MkdirTemp(arg(0), "d*")
		if err == nil {
			res.tmp = n
			res.strs = []string{filepath.Dir(n)}
			res.data = fmt.Sprint(strings.HasPrefix(filepath.Base(n), "d"))
		}
	default:
		panic("unknown op " + op)
	}
	res.kind = "ok"
	if err != nil {
		res.kind = "err"
		res.errStr = innerErr(err)
		res.errPaths = append(errPaths(err), res.errPaths...)
	}
	return res
}

// ops whose wrapper method forwards directly to the same method of the base:
// the first record is the call itself, its paths are ToBasePath of the arguments and
// the wrapper's returned paths are fromBasePath of the base's.
var bpForward = map[string]bool{"Stat": true, "Lstat": true, "Abs": true, "Mkdir": true, "MkdirAll": true,
	"Chmod": true, "Chown": true, "Lchown": true, "Chtimes": true, "Truncate": true, "Chdir": true, "Remove": true,
	"RemoveAll": true, "Sub": true, "Link": true, "Rename": true, "Getwd": true}

// ops that reach the base first with ToBasePath of their (first) argument through generic code
// ops that open a handle with ToBasePath of the argument and then call every method of it: every path
// the base file returned (error paths, Name) comes back through fromBasePath, in order
var bpFile = map[string]bool{"FileR": true, "FileW": true}

var bpFirst = map[string]bool{"ReadFile": true, "ReadDir": true, "Open": true, "WalkDir": true, "WriteFile": true,
	"Create": true, "OpenFileC": true, "FChdir": true}

func toks(xs []string) string {
	t := make([]string, len(xs))
	for i, x := range xs {
		t[i] = tok(x)
	}
	return strings.Join(t, ",")
}

// vcwd: the current directory in the virtual namespace (the reference's when there is one).
func (w *bpWorld) vcwd() string {
	if w.ref != nil {
		d, _ := w.ref.Getwd()
		return d
	}
	d := guard(func() string { s, _ := w.bp.Getwd(); return s })
	if d == "PANIC" || d == "" {
		return "/"
	}
	return d
}

func hasMetaBp(p string) bool { return strings.ContainsAny(p, `*?[\`) }

type opOut struct {
	caseTxt, obsTxt string
	failure         string // property-level failure seen by the harness itself ("" = none)
}

func (w *bpWorld) step(op string, a []string) opOut {
	head := op
	for _, x := range a {
		head += " " + tok(x)
	}
	if w.dead || (bpFile[op] && a[0] == "") {
		// (a MemFile opened with the empty name is unusable, the handle methods of the reference would all
		// fail while the wrapper's act on the current directory: OpenFile("") itself is covered by Open)
		return opOut{caseTxt: head + " ; skip", obsTxt: "skip"}
	}
	if op == "XBaseChdir" {
		// another user of the shared base file system changes ITS current directory (not a call of the
		// wrapper): if the directory is outside B the wrapper's current directory becomes the virtual root,
		// if it is inside B it follows - the reference is moved accordingly
		err := w.base.Chdir(a[0])
		if err == nil && w.ref != nil {
			c := filepath.Clean(a[0])
			switch {
			case w.B == "/":
				_ = w.ref.Chdir(c)
			case c == w.B:
				_ = w.ref.Chdir("/")
			case strings.HasPrefix(c, w.B+"/"):
				_ = w.ref.Chdir(strings.TrimPrefix(c, w.B))
			default:
				_ = w.ref.Chdir("/")
			}
		}
		return opOut{caseTxt: head + " ; ext", obsTxt: "ext"}
	}
	bcwd, _ := w.base.Getwd()
	vabs := ""
	if bpFile[op] {
		vabs = a[0]
		if !strings.HasPrefix(vabs, "/") {
			vabs = w.vcwd() + "/" + vabs
		}
		vabs = filepath.Clean(vabs)
	}
	out0 := w.outside()
	var refAbs func(string) string
	if w.ref != nil {
		refAbs = memfsAbs(w.ref)
	}
	w.log = w.log[:0]
	br := doCall(w.bp, op, a)
	recs := append([]bpRec(nil), w.log...)
	out1 := w.outside()
	var fails []string
	// --- what the model needs: the base's cwd, every path the base received, what the first call returned
	var allIn []string
	for _, r := range recs {
		allIn = append(allIn, r.in...)
	}
	var first, raw []string
	for _, r := range recs {
		if r.meth == "Getwd" && op != "Getwd" {
			continue // issued by ToBasePath to resolve a relative path
		}
		first, raw = r.in, r.out
		break
	}
	caseTxt := fmt.Sprintf("%s ; c=%s ; in=%s", head, tok(bcwd), toks(allIn))
	obs := ""
	switch {
	case bpFile[op]:
		var rawAll []string
		for _, r := range recs {
			if r.meth != "Getwd" {
				rawAll = append(rawAll, r.out...)
			}
		}
		caseTxt += " ; raw=" + toks(rawAll)
		obs = "tb=" + toks(first) + " back=" + toks(br.errPaths)
		// every path a method of the handle returns (error paths, Name) is the virtual path of the file
		for _, q := range br.errPaths {
			if q != vabs {
				fails = append(fails, fmt.Sprintf("a path returned by a method of the file handle is not the virtual path %q: %q", vabs, q))
				break
			}
		}
	case bpForward[op]:
		caseTxt += " ; raw=" + toks(raw)
		obs = "tb=" + toks(first) + " back=" + toks(append(append([]string(nil), br.errPaths...), br.strs...))
	case bpFirst[op] || (op == "Glob" && !hasMetaBp(a[0])):
		obs = "tb=" + toks(first) + " back=-"
	case op == "Symlink" || op == "Readlink" || op == "EvalSymlinks":
		obs = "tb=" + toks(allIn) + " back=-" // must be empty: refused without touching the base
	default:
		obs = "tb=- back=-"
	}
	if br.kind == "PANIC" && w.rec.basePanic {
		// the base file system itself panicked on a path inside B: its defect; the history ends here
		w.dead = true
		return opOut{caseTxt: head + " ; basepanic", obsTxt: "basepanic"}
	}
	if br.kind == "PANIC" {
		obs += " PANIC"
		fails = append(fails, "panic: "+br.data)
	}
	obs += " conf=1"
	for _, p := range allIn {
		c := filepath.Clean(p)
		if !(c == w.B || w.B == "/" || strings.HasPrefix(c, w.B+"/")) {
			fails = append(fails, "path outside B handed to the base: "+p)
			break
		}
	}
	// --- the standalone reference
	refV := "ref=ok"
	refused := op == "Symlink" || op == "Readlink" || op == "EvalSymlinks"
	emptyArg := false
	for _, x := range a {
		emptyArg = emptyArg || x == ""
	}
	switch {
	case refused:
		// refused by design (FeatSymlink is removed): an error, and the base must not be reached
		if br.kind == "ok" || len(recs) != 0 {
			refV = "ref=DIFF(" + tok("refuse") + ")"
			fails = append(fails, "a refused call reached the base or succeeded")
		}
	case w.ref != nil && br.kind != "PANIC" && emptyArg:
		// MemFS handles the empty name inconsistently (searchNode takes it for the current directory,
		// a MemFile opened with it is unusable): no reference outcome, but the reference must stay in step
		rr := doCall(w.ref, op, a)
		if rr.tmp != "" {
			_ = w.ref.RemoveAll(rr.tmp)
		}
		if br.tmp != "" {
			_ = guard(func() string { _ = w.base.RemoveAll(w.bp.ToBasePath(br.tmp)); return "" })
		}
		if w.inside() != refTree(w.ref) {
			refV = "ref=DIFF(" + tok("tree") + ")"
			fails = append(fails, "differs from the standalone reference: tree")
		}
	case w.ref != nil && br.kind != "PANIC":
		rr := doCall(w.ref, op, a)
		if op == "FChdir" && rr.kind == "ok" {
			// MemFile.Chdir stores the name as given to Open; a relative name would leave the reference
			// with a relative or unclean current directory: make it absolute (workaround for a MemFS defect)
			if d, _ := w.ref.Getwd(); d != refAbs(d) {
				_ = w.ref.Chdir(refAbs(d))
			}
		}
		d := ""
		if (op == "CreateTemp" || op == "MkdirTemp") && !samePathsAt(refAbs, rr.errPaths, br.errPaths) {
			// the generated names are random: compare the directories
			for i := range rr.errPaths {
				rr.errPaths[i] = filepath.Dir(refAbs(rr.errPaths[i]))
			}
			for i := range br.errPaths {
				br.errPaths[i] = filepath.Dir(br.errPaths[i])
			}
		}
		if op == "Rename" && a[0] != a[1] && refAbs(a[0]) == refAbs(a[1]) && rr.kind == "ok" && br.kind == "err" && br.errStr == "file exists" {
			// Rename of a directory onto ANOTHER SPELLING of itself: package os (and MemFS after it) refuses
			// only when the two names are the same string; the wrapper hands the base two identical cleaned
			// paths (known finding KF-C10-renameself, reproduced by the bpkf stream). Exactly that class is accepted.
			br.kind, br.errStr, br.errPaths = rr.kind, rr.errStr, rr.errPaths
		}
		if (op == "Stat" || op == "Lstat") && rr.kind == "ok" && br.kind == "ok" {
			// FileInfo.Name(): the base names the result after the translated path, i.e. after the last element of
			// the cleaned absolute path (of B itself for the virtual root), a standalone file system after the
			// path as given (known finding KF-C10-infoname, reproduced by the bpkf stream). Exactly that class
			// is compared without the name; any other difference of names is a deviation.
			want := filepath.Base(refAbs(a[0]))
			if refAbs(a[0]) == "/" {
				want = filepath.Base(w.B)
			}
			rn, bn := rr.data[:strings.Index(rr.data, "|")], br.data[:strings.Index(br.data, "|")]
			if rn != bn && bn == want && rn == filepath.Base(a[0]) {
				rr.data = rr.data[len(rn):]
				br.data = br.data[len(bn):]
			}
		}
		switch {
		case rr.kind != br.kind:
			d = "kind:" + rr.kind + "/" + br.kind
		case rr.errStr != br.errStr:
			d = "err:" + rr.errStr + "/" + br.errStr
		case rr.data != br.data:
			d = "data:" + rr.data + "/" + br.data
		case !samePathsAt(refAbs, rr.errPaths, br.errPaths):
			d = "errpath:" + strings.Join(rr.errPaths, ",") + "/" + strings.Join(br.errPaths, ",")
		case !samePathsAt(refAbs, rr.strs, br.strs):
			d = "paths:" + strings.Join(rr.strs, ",") + "/" + strings.Join(br.strs, ",")
		}
		if d == "" {
			// temporary entries have random names: remove them on both sides
			if br.tmp != "" {
				_ = guard(func() string { _ = w.base.RemoveAll(w.bp.ToBasePath(br.tmp)); return "" })
			}
			if rr.tmp != "" {
				_ = w.ref.RemoveAll(rr.tmp)
			}
			if w.inside() != refTree(w.ref) {
				d = "tree"
			}
			bw := guard(func() string { d, _ := w.bp.Getwd(); return d })
			rw, _ := w.ref.Getwd()
			if d == "" && bw != rw {
				d = "cwd:" + rw + "/" + bw
			}
		}
		if d != "" {
			refV = "ref=DIFF(" + tok(d) + ")"
			fails = append(fails, "differs from the standalone reference: "+d)
		}
	case br.tmp != "":
		_ = guard(func() string { _ = w.base.RemoveAll(w.bp.ToBasePath(br.tmp)); return "" })
	}
	outV := "out=ok"
	if out0 != out1 {
		outV = "out=CHANGED"
		fails = append(fails, "the base changed outside of B")
	}
	leak := "leak=0"
	blob := br.data + "\x00" + strings.Join(br.strs, "\x00")
	if w.B != "/" && !w.links && strings.Contains(blob, bpSecret) {
		leak = "leak=1"
		fails = append(fails, "a result reveals the secret outside of B")
	}
	obs += " " + refV + " " + outV + " " + leak
	return opOut{caseTxt: caseTxt, obsTxt: obs, failure: strings.Join(fails, "; ")}
}

// memfsAbs returns a function resolving a path against the CURRENT cwd of ref (captured now).
func memfsAbs(ref avfs.VFS) func(string) string {
	cwd, _ := ref.Getwd()
	return func(p string) string {
		if strings.HasPrefix(p, "/") {
			return filepath.Clean(p)
		}
		return filepath.Join(cwd, p)
	}
}

func samePathsAt(abs func(string) string, refPaths, bpPaths []string) bool {
	if len(refPaths) != len(bpPaths) {
		return false
	}
	for i := range bpPaths {
		if bpPaths[i] != refPaths[i] && bpPaths[i] != abs(refPaths[i]) {
			return false
		}
	}
	return true
}

// ---------------------------------------------------------------------------
// histories

type bpOp struct {
	op string
	a  []string
}

func parseHist(line string) (kind, B string, ops []bpOp) {
	parts := strings.Split(line, " | ")
	h := strings.Fields(parts[0])
	if len(h) != 3 || h[0] != "bpfs" {
		panic("bad bpfs header: " + parts[0])
	}
	kind, B = h[1], untok(h[2])
	for _, p := range parts[1:] {
		p = strings.SplitN(p, " ; ", 2)[0]
		f := strings.Fields(p)
		o := bpOp{op: f[0]}
		for _, t := range f[1:] {
			o.a = append(o.a, untok(t))
		}
		ops = append(ops, o)
	}
	return
}

func runHist(kind, B string, ops []bpOp) (caseLine, obsLine, failure string) {
	w := newWorld(kind, B)
	cs := []string{fmt.Sprintf("bpfs %s %s", kind, tok(B))}
	os_ := []string{"bpfs"}
	for i, o := range ops {
		r := w.step(o.op, o.a)
		cs = append(cs, r.caseTxt)
		os_ = append(os_, r.obsTxt)
		if r.failure != "" && failure == "" {
			failure = fmt.Sprintf("step %d %s %q: %s", i+1, o.op, o.a, r.failure)
		}
	}
	return strings.Join(cs, " | "), strings.Join(os_, " | "), failure
}

// every path-taking call with p, read-only ones first, destructive ones last
func opsFor(p string) []bpOp {
	one := []string{"Stat", "Lstat", "Abs", "Glob", "ReadFile", "ReadDir", "Open", "FileR", "WalkDir", "Sub", "Readlink", "EvalSymlinks",
		"Mkdir", "MkdirAll", "WriteFile", "Create", "OpenFileC", "FileW", "CreateTemp", "MkdirTemp",
		"Chmod", "Chown", "Lchown", "Chtimes", "Truncate"}
	var ops []bpOp
	for _, o := range one {
		ops = append(ops, bpOp{o, []string{p}})
	}
	ops = append(ops,
		bpOp{"Symlink", []string{p, "/sl"}}, bpOp{"Symlink", []string{"/b", p}},
		bpOp{"Link", []string{"/b", p}}, bpOp{"Link", []string{p, "/nl"}},
		bpOp{"Rename", []string{"/a/f", p}}, bpOp{"Rename", []string{p, "/nr"}},
		bpOp{"Getwd", nil}, bpOp{"Chdir", []string{p}}, bpOp{"Getwd", nil}, bpOp{"Stat", []string{"."}}, bpOp{"ReadDir", []string{".."}},
		bpOp{"FChdir", []string{p}}, bpOp{"Getwd", nil}, bpOp{"Abs", []string{"../x"}},
		bpOp{"Remove", []string{p}}, bpOp{"RemoveAll", []string{p}}, bpOp{"ReadDir", []string{"/"}})
	return ops
}

func bpAllStrings(alpha string, maxLen int) []string {
	res := []string{""}
	prev := []string{""}
	for l := 1; l <= maxLen; l++ {
		var cur []string
		for _, s := range prev {
			for i := 0; i < len(alpha); i++ {
				cur = append(cur, s+string(alpha[i]))
			}
		}
		res = append(res, cur...)
		prev = cur
	}
	return res
}

type hist struct {
	kind, B string
	ops     []bpOp
}

func bpModePrefix(mode string) []bpOp {
	switch mode {
	case "ext":
		return []bpOp{{"XBaseChdir", []string{"/cc"}}}
	case "ext1":
		return []bpOp{{"Chdir", []string{"/a"}}, {"XBaseChdir", []string{"/a"}}}
	case "post":
		return []bpOp{{"Chdir", []string{"/a/b"}}}
	case "post1":
		return []bpOp{{"Chdir", []string{"/c"}}}
	}
	return nil
}

func randPath(r *rng) string {
	comps := []string{"a", "b", "c", ".", "..", "", "f", "x", "tmp", "cc", "secret", "nl", "..."}
	n := 1 + r.intn(5)
	var cs []string
	for i := 0; i < n; i++ {
		cs = append(cs, r.pick(comps))
	}
	p := strings.Join(cs, "/")
	if r.chance(3, 5) {
		p = "/" + p
	}
	if r.chance(1, 8) {
		p += "/"
	}
	return p
}

func randHist(r *rng, kind, B string, n int) hist {
	one := []string{"Stat", "Lstat", "Abs", "Glob", "ReadFile", "ReadDir", "Open", "WalkDir", "Sub", "Mkdir", "MkdirAll",
		"WriteFile", "Create", "OpenFileC", "FileR", "FileR", "FileW", "CreateTemp", "MkdirTemp", "Chmod", "Chown", "Chtimes", "Truncate", "Chdir", "Chdir",
		"FChdir", "Remove", "RemoveAll", "Readlink"}
	globs := []string{"*", "/*", "/a/*", "../*", "a/*", "/*/*", "/c/*", "./*", "/../*", "*/.."}
	h := hist{kind: kind, B: B}
	for i := 0; i < n; i++ {
		switch k := r.intn(12); {
		case k == 0 && r.chance(1, 3):
			h.ops = append(h.ops, bpOp{"XBaseChdir", []string{r.pick([]string{"/", "/a", "/tmp", "/c", "/c/a", "/c/c", "/cc", "/c/d"})}})
		case k == 0:
			h.ops = append(h.ops, bpOp{"Getwd", nil})
		case k == 1:
			h.ops = append(h.ops, bpOp{r.pick([]string{"Link", "Rename", "Symlink"}), []string{randPath(r), randPath(r)}})
		case k == 2:
			h.ops = append(h.ops, bpOp{"Glob", []string{r.pick(globs)}})
		default:
			h.ops = append(h.ops, bpOp{r.pick(one), []string{randPath(r)}})
		}
	}
	return h
}

// bpLinkHists: calls THROUGH symbolic links that lead out of B (created through the base, see newWorld),
// chosen so that nothing is modified: read-only calls, and creating calls only below a regular file. What they
// exercise is the reverse translation of paths the base reports after resolving the link - MemFS.MkdirAll names
// the regular file it met, e.g. /c.old/f for MkdirAll("/lo/f/x"): a string prefix of B that is not below B.
func bpLinkHists() []hist {
	var hs []hist
	dirLinks := []string{"/lo", "/lx", "/la", "/li", "lo", "a/../lx"}
	fileLinks := []string{"/ls", "/a/lf", "ls"}
	sufDir := []string{"", "/", "/f", "/d", "/missing", "/missing/x", "/..", "/../c", "/./f/", "/d/.."}
	sufBelowFile := []string{"/f/x", "/f/x/y", "/f/../f/z"}
	ro := []string{"Stat", "Lstat", "ReadDir", "ReadFile", "Open", "WalkDir", "Glob", "Abs", "Sub", "Readlink", "EvalSymlinks"}
	one := func(given, p string, create bool, mode string) hist {
		ops := bpModePrefix(mode)
		for _, o := range ro {
			ops = append(ops, bpOp{o, []string{p}})
		}
		if create {
			for _, o := range []string{"MkdirAll", "Mkdir", "WriteFile", "Create", "OpenFileC", "CreateTemp", "MkdirTemp", "Truncate", "Remove", "RemoveAll"} {
				ops = append(ops, bpOp{o, []string{p}})
			}
			ops = append(ops, bpOp{"Rename", []string{"/b", p}}, bpOp{"Link", []string{"/b", p}}, bpOp{"Rename", []string{p, "/nr"}})
		}
		ops = append(ops, bpOp{"Chdir", []string{p}}, bpOp{"Getwd", nil}, bpOp{"Stat", []string{"."}}, bpOp{"Abs", []string{"../x"}}, bpOp{"FChdir", []string{p}}, bpOp{"Getwd", nil})
		return hist{"memfs-links", given, ops}
	}
	for _, given := range []string{"/c", "/c/d"} {
		for _, mode := range []string{"pre", "post"} {
			for _, l := range dirLinks {
				for _, sfx := range sufDir {
					hs = append(hs, one(given, l+sfx, false, mode))
				}
				for _, sfx := range sufBelowFile {
					hs = append(hs, one(given, l+sfx, true, mode))
				}
			}
			for _, l := range fileLinks {
				hs = append(hs, one(given, l, false, mode), one(given, l+"/x", true, mode), one(given, l+"/x/y", true, mode))
			}
		}
	}
	return hs
}

// fixed witnesses of the defects of the pinned code; always run first
func bpCorpus() []hist {
	mk := func(B string, ops ...bpOp) hist { return hist{"memfs", B, ops} }
	return []hist{
		mk("/c", bpOp{"ReadFile", []string{"/../secret"}}),
		mk("/c", bpOp{"WriteFile", []string{"/../evil"}}, bpOp{"ReadDir", []string{"/"}}),
		mk("/c", bpOp{"Getwd", nil}),
		mk("/c", bpOp{"Stat", []string{"missing"}}),
		mk("/c", bpOp{"Chdir", []string{"/a/b"}}, bpOp{"ReadFile", []string{"../../../secret"}}, bpOp{"Abs", []string{"../../.."}}),
		mk("/c", bpOp{"Open", []string{"../b"}}, bpOp{"Glob", []string{"/../*"}}, bpOp{"Glob", []string{"*"}}),
		mk("/c", bpOp{"Stat", []string{"/../cc/secret2"}}, bpOp{"Rename", []string{"/b", "/../stolen"}}, bpOp{"Link", []string{"/../secret", "/s"}}),
		mk("/", bpOp{"Stat", []string{"/nope"}}, bpOp{"Chdir", []string{"/a"}}, bpOp{"Getwd", nil}, bpOp{"Open", []string{"f"}}),
		mk("/c", bpOp{"FileR", []string{"/a/f"}}, bpOp{"FileR", []string{"/a"}}, bpOp{"Chdir", []string{"/a"}}, bpOp{"FileW", []string{"f"}}, bpOp{"FileW", []string{"../new"}}),
		mk("/c/d", bpOp{"FileR", []string{"b"}}, bpOp{"FileW", []string{"/a/b/../n"}}),
		{"memfs-links", "/c", []bpOp{{"MkdirAll", []string{"/lo/f/x"}}, {"Stat", []string{"/lo/missing"}}, {"ReadDir", []string{"/lx/f"}}, {"MkdirAll", []string{"/a/lf/x"}}}},
		mk("/c/", bpOp{"Stat", []string{"/"}}, bpOp{"Chdir", []string{"/"}}, bpOp{"Getwd", nil}, bpOp{"RemoveAll", []string{"/"}}, bpOp{"ReadDir", []string{"/"}}),
		mk("//c", bpOp{"Chdir", []string{"/a"}}, bpOp{"Stat", []string{"f"}}, bpOp{"Open", []string{"../b"}}, bpOp{"Remove", []string{".."}}),
		mk("/c", bpOp{"XBaseChdir", []string{"/cc"}}, bpOp{"Getwd", nil}, bpOp{"ReadFile", []string{"secret2"}}, bpOp{"Stat", []string{"../secret"}}, bpOp{"WriteFile", []string{"w"}}),
		mk("/c/d", bpOp{"Mkdir", []string{"/x"}}, bpOp{"Chdir", []string{"x"}}, bpOp{"WriteFile", []string{"../../y"}}, bpOp{"Getwd", nil}),
	}
}

func runBpFs(cfg config) {
	o := newOut(cfg.dir, cfg.name)
	defer o.close(cfg.name)
	o.rule = "history of path-taking calls through BasePathFS(base, B) over a recording base: (tb) paths handed to the base = model's ToBasePath of the arguments; (back) returned paths = model's fromBasePath/curDir of the base's; (conf) every logged path is inside B by the model's hasBasePath; (ref) outcome, results, error paths (modulo Abs in the virtual namespace), File.Name, resulting tree and cwd equal a standalone MemFS holding B's content; (out) snapshot of the base outside B unchanged around every call; (leak) no result contains the secret planted outside B; a history counts as distinct non-trivial when its case line (calls, base cwds, paths that reached the base) is distinct and at least one path reached the base"
	var hs []hist
	if lines := cfg.replayLines(); lines != nil {
		for _, l := range lines {
			k, B, ops := parseHist(l)
			hs = append(hs, hist{k, B, ops})
		}
	} else {
		hs = append(hs, bpCorpus()...)
		maxLen, maxLenAll, nRand, lenRand := 5, 4, 300, 40
		if cfg.tier == "thorough" {
			maxLen, maxLenAll, nRand, lenRand = 7, 6, 3000, 60
		}
		// B = "/c": its only component is in the alphabet
		for _, s := range bpAllStrings("ab./c", maxLen) {
			for _, mode := range []string{"pre", "post", "post1", "ext", "ext1"} {
				if len(s) > maxLenAll && mode != "pre" && mode != "post" {
					continue
				}
				ops := append(bpModePrefix(mode), opsFor(s)...)
				hs = append(hs, hist{"memfs", "/c", ops})
			}
		}
		// the base path given to the constructor in an unclean spelling (the constructor cleans it)
		for _, s := range bpAllStrings("ab./c", maxLenAll-2) {
			for _, given := range []string{"/c/", "//c", "/c/.", "/a/../c"} {
				hs = append(hs, hist{"memfs", given, append(bpModePrefix("post"), opsFor(s)...)})
			}
		}
		hs = append(hs, bpLinkHists()...)
		// smaller sweeps: root base path, two-component base path, OrefaFS base
		for _, s := range bpAllStrings("ab./c", maxLenAll-1) {
			hs = append(hs, hist{"memfs", "/", append(bpModePrefix("post"), opsFor(s)...)})
			hs = append(hs, hist{"memfs", "/c/d", append(bpModePrefix("post"), opsFor(s)...)})
			hs = append(hs, hist{"orefafs", "/c", append(bpModePrefix("post"), opsFor(s)...)})
		}
		r := &rng{s: cfg.seed}
		for i := 0; i < nRand; i++ {
			kind := "memfs"
			if i%5 == 4 {
				kind = "orefafs"
			}
			B := r.pick([]string{"/c", "/c", "/c/d", "/"})
			if kind == "orefafs" && B == "/" {
				B = "/c" // OrefaFS cannot stat its root: New(orefafs, "/") fails
			}
			hs = append(hs, randHist(r, kind, B, lenRand))
		}
	}
	type resT struct{ c, ob, f string }
	res := make([]resT, len(hs))
	var wg sync.WaitGroup
	sem := make(chan struct{}, 16)
	for i := range hs {
		wg.Add(1)
		sem <- struct{}{}
		go func(i int) {
			defer wg.Done()
			defer func() { <-sem }()
			head := fmt.Sprintf("bpfs %s %s", hs[i].kind, tok(hs[i].B))
			done := make(chan resT, 1)
			go func() {
				defer func() {
					if r := recover(); r != nil {
						done <- resT{head, "HARNESS-PANIC " + fmt.Sprint(r), "harness panic: " + fmt.Sprint(r)}
					}
				}()
				c, ob, f := runHist(hs[i].kind, hs[i].B, hs[i].ops)
				done <- resT{c, ob, f}
			}()
			select {
			case r := <-done:
				res[i] = r
			case <-time.After(30 * time.Second):
				// a call never returned (a lock of the file system taken twice): reported, the goroutine is abandoned
				var ops []string
				for _, o := range hs[i].ops {
					t := o.op
					for _, x := range o.a {
						t += " " + tok(x)
					}
					ops = append(ops, t)
				}
				res[i] = resT{head + " | " + strings.Join(ops, " | "), "HANG", "a call did not return within 30 s (deadlock)"}
			}
		}(i)
	}
	wg.Wait()
	ff, err := os.Create(filepath.Join(cfg.dir, cfg.name+".failures"))
	if err != nil {
		panic(err)
	}
	defer ff.Close()
	nops := 0
	for i, r := range res {
		key := ""
		if strings.Contains(r.ob, "tb=s") {
			key = hex.EncodeToString(md5sum(r.c))
		}
		o.emit(r.c, r.ob, key)
		if r.f != "" {
			fmt.Fprintf(ff, "%d\t%s\t%s\n", i, r.f, r.c)
		}
		nops += len(hs[i].ops)
		o.count("base:" + hs[i].kind)
		o.count("B:" + hs[i].B)
		for _, op := range hs[i].ops {
			o.count("op:" + op.op)
		}
		for _, part := range strings.Split(r.ob, " | ") {
			switch {
			case strings.Contains(part, "PANIC"):
				o.count("outcome:panic")
			case part == "skip":
				o.count("outcome:skipped-root-target")
			}
		}
	}
	o.extra["calls"] = nops
	o.extra["histories"] = len(hs)
	o.extra["exhaustive"] = "every string of length <= maxLen over {a,b,.,/,c} as the argument of every path-taking call, B=/c, before and after Chdir"
}

func md5sum(s string) []byte { h := md5.Sum([]byte(s)); return h[:] }

// ---------------------------------------------------------------------------
// string level

func runBpStr(cfg config) {
	o := newOut(cfg.dir, cfg.name)
	defer o.close(cfg.name)
	o.rule = "ToBasePath(p), Abs(p), FromBasePath(p), Getwd() of BasePathFS(MemFS, B) with the base's current directory set to an arbitrary string, against the extracted model (to_base_path, from_base_safe of it, from_base_path, cur_dir); distinct non-trivial = distinct inputs that are relative or contain a '..' element"
	type cse struct{ B, cwd, p string }
	var cs []cse
	if lines := cfg.replayLines(); lines != nil {
		for _, l := range lines {
			f := strings.Fields(l)
			if len(f) != 4 || f[0] != "str" {
				panic("bad bpstr line " + l)
			}
			cs = append(cs, cse{untok(f[1]), untok(f[2]), untok(f[3])})
		}
	} else {
		maxLen := 5
		if cfg.tier == "thorough" {
			maxLen = 7
		}
		cwds := map[string][]string{
			"/c":   {"", "/", "/c", "/c/a/b", "/cc", "/c/../x", "/c/a/", "c"},
			"/":    {"", "/", "/a"},
			"/c/d": {"", "/c/d/a", "/c"},
		}
		for _, B := range []string{"/c", "/", "/c/d"} {
			ml := maxLen
			if B != "/c" {
				ml = maxLen - 1
			}
			for _, s := range bpAllStrings("ab./c", ml) {
				for i, cwd := range cwds[B] {
					if len(s) == maxLen && i > 3 {
						continue
					}
					cs = append(cs, cse{B, cwd, s})
				}
			}
		}
		// unclean spellings of the base path given to the constructor; and paths the base may report that
		// have B as a STRING prefix without being below it (siblings whose names extend B's)
		for _, B := range []string{"/c/", "//c", "/c/.", "/a/../c", "/c/d/"} {
			for _, s := range bpAllStrings("ab./c", maxLen-2) {
				for _, cwd := range []string{"", "/c", "/c/a"} {
					cs = append(cs, cse{B, cwd, s})
				}
			}
		}
		for _, B := range []string{"/c", "/c/d", "/c/"} {
			b := filepath.Clean(B)
			for _, sfx := range []string{"", "/", "x", ".old", ".old/f", "c/../c", "x/f", "/f", "/.", "/..", "//a", "./a", ".", ".."} {
				for _, cwd := range []string{"", "/c", b + ".old", b + "x/y", b + "/a"} {
					cs = append(cs, cse{B, cwd, b + sfx})
				}
			}
		}
		r := &rng{s: cfg.seed}
		for i := 0; i < 20000; i++ {
			cs = append(cs, cse{r.pick([]string{"/c", "/c/d", "/"}), r.pick([]string{"", "/c/a", "/c/d/x/y", "/zz"}), randPath(r) + r.pick([]string{"", "/..", "/.", "//a"})})
		}
	}
	worlds := map[string]*bpWorld{}
	for _, c := range cs {
		w, ok := worlds[c.B]
		if !ok {
			w = newWorld("memfs", c.B)
			worlds[c.B] = w
		}
		_ = w.base.(*memfs.MemFS).SetCurDir(c.cwd)
		g := func(f func() string) string { return guard(f) }
		tb := g(func() string { return tok(w.bp.ToBasePath(c.p)) })
		ab := g(func() string { s, _ := w.bp.Abs(c.p); return tok(s) })
		fb := g(func() string { return tok(w.bp.FromBasePath(c.p)) })
		fe := g(func() string {
			// FromPathError / FromLinkError apply the lenient fromBasePath to whatever path the base reports
			e1 := w.bp.FromPathError(&fs.PathError{Op: "x", Path: c.p, Err: fs.ErrNotExist}).(*fs.PathError)
			e2 := w.bp.FromLinkError(&os.LinkError{Op: "x", Old: c.p, New: c.B + c.p, Err: fs.ErrNotExist}).(*os.LinkError)
			return tok(e1.Path) + "," + tok(e2.Old) + "," + tok(e2.New)
		})
		wd := g(func() string { s, _ := w.bp.Getwd(); return tok(s) })
		line := fmt.Sprintf("str %s %s %s", tok(c.B), tok(c.cwd), tok(c.p))
		key := ""
		if strings.Contains(c.p, "..") || !strings.HasPrefix(c.p, "/") {
			key = line
		}
		o.emit(line, fmt.Sprintf("tb=%s ab=%s fb=%s wd=%s fe=%s", tb, ab, fb, wd, fe), key)
		o.count("B:" + c.B)
		if tb == "PANIC" || ab == "PANIC" || wd == "PANIC" || fe == "PANIC" {
			o.count("outcome:panic")
		}
		if fb == "PANIC" {
			o.count("FromBasePath:panics(outside B)")
		}
	}
}

// ---------------------------------------------------------------------------
// witnesses of the open known findings of C10 (reproduced on every run)

func init() { commands["bpkf"] = runBpKf }

func runBpKf(cfg config) {
	o := newOut(cfg.dir, cfg.name)
	defer o.close(cfg.name)
	o.rule = "fixed witnesses of the open known findings"
	// KF-C10-infoname: FileInfo.Name() of the virtual root and of "."
	w := newWorld("memfs", "/c")
	o.emit("kf infoname", guard(func() string {
		i, err := w.bp.Stat("/")
		if err != nil {
			return "err"
		}
		ri, _ := w.ref.Stat("/")
		_ = w.bp.Chdir("/a")
		_ = w.ref.Chdir("/a")
		j, err := w.bp.Stat(".")
		if err != nil {
			return "err"
		}
		rj, _ := w.ref.Stat(".")
		return fmt.Sprintf("root=%s ref=%s last=%s dot=%s refdot=%s", tok(i.Name()), tok(ri.Name()), tok(filepath.Base(w.B)), tok(j.Name()), tok(rj.Name()))
	}), "infoname")
	// KF-C10-renameself: a directory renamed onto another spelling of itself
	w = newWorld("memfs", "/c")
	o.emit("kf renameself", guard(func() string {
		return fmt.Sprintf("bp=%v ref=%v", w.bp.Rename("a", "/a") == nil, w.ref.Rename("a", "/a") == nil)
	}), "renameself")
	// regression witness of the repaired defect "RemoveAll(\"/\") removes the base directory itself"
	// (was known finding KF-C10-rootops): the call must fail and B must still exist
	w = newWorld("memfs", "/c")
	o.emit("kf rootops", guard(func() string {
		err := w.bp.RemoveAll("/")
		_, e2 := w.base.Stat(w.B)
		return fmt.Sprintf("removeall=%v base-dir-exists=%v", err, e2 == nil)
	}), "rootops")
}
