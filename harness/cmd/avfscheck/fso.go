package main

// The oracle stream (C01, C03, C04): the same generated history is executed on MemFS (built from
// /repo) and on the real kernel through avfs' OsFS inside a chroot on a fresh tmpfs directory, as the
// acting identity of each call (fsuid/fsgid/groups of the calling thread).  Three files are written:
//   <name>.cases     the histories (read by ml/driver fso, which runs the Coq SPECIFICATION model)
//   <name>.observed  what MemFS answered          (projected observables, snapshot digest per call)
//   <name>.oracle    what Linux answered          (same syntax)
// lib/vcheck compares oracle with specification (B), implementation with oracle (O) and classifies
// every deviation with the model's decidable known-finding classifier.

import (
	"bufio"
	"fmt"
	"io/fs"
	"os"
	"path/filepath"
	"runtime"
	"strings"
	"syscall"
	"time"
	"unsafe"

	"github.com/avfs/avfs"
	"github.com/avfs/avfs/vfs/osfs"
)

func init() { commands["fso"] = runFSO }

// ---- identity of the calling thread -------------------------------------------------------
func setThreadIdentity(uid, gid int) {
	// raw system calls: they affect the calling thread only (the Go runtime's wrappers would
	// broadcast them to every thread).  Back to root first so that the calls are permitted.
	syscall.RawSyscall(syscall.SYS_SETFSUID, 0, 0, 0)
	groups := []uint32{uint32(gid)}
	syscall.RawSyscall(syscall.SYS_SETGROUPS, 1, uintptr(unsafe.Pointer(&groups[0])), 0)
	syscall.RawSyscall(syscall.SYS_SETFSGID, uintptr(gid), 0, 0)
	syscall.RawSyscall(syscall.SYS_SETFSUID, uintptr(uid), 0, 0)
}

// ---- the chroot ----------------------------------------------------------------------------
type jail struct {
	dir      string
	realRoot *os.File
}

func enterJail(dir string) *jail {
	if err := os.MkdirAll(dir, 0o755); err != nil {
		panic(err)
	}
	if err := os.Chmod(dir, 0o755); err != nil {
		panic(err)
	}
	rr, err := os.Open("/")
	if err != nil {
		panic(err)
	}
	if err := syscall.Chroot(dir); err != nil {
		panic(fmt.Sprintf("chroot %s: %v (the oracle needs CAP_SYS_CHROOT)", dir, err))
	}
	if err := os.Chdir("/"); err != nil {
		panic(err)
	}
	return &jail{dir: dir, realRoot: rr}
}

func (j *jail) leave() {
	setThreadIdentity(0, 0)
	if err := j.realRoot.Chdir(); err != nil {
		panic(err)
	}
	if err := syscall.Chroot("."); err != nil {
		panic(err)
	}
	j.realRoot.Close()
	os.RemoveAll(j.dir)
}

// ---- executing a history -----------------------------------------------------------------------
// applySingle: the single-view call alphabet of the oracle streams. OpenFile closes at once.
func applySingle(w *fsWorld, t []string, oracle bool, umask *int) string {
	v := w.views[0]
	switch t[0] {
	case "OP":
		f, err := v.OpenFile(untok(t[2]), atoi(t[3]), fs.FileMode(atoi64(t[4])))
		if err != nil {
			return "E " + errCode(err)
		}
		f.Close()
		return "ok"
	case "SU":
		if oracle {
			setThreadIdentity(atoi(t[2]), atoi(t[3]))
			return "ok"
		}
	case "UM":
		if oracle {
			*umask = atoi(t[2])
			syscall.Umask(*umask)
			return "ok"
		}
	case "SL":
		if oracle {
			// OsFS.Symlink as is; MemFS stores the cleaned target, the generator only emits clean ones
			return resErr(v.Symlink(untok(t[2]), untok(t[3])))
		}
	}
	return w.apply(t)
}

// buildLike recreates, as root, the initial tree of the implementation in the oracle's root.
func buildLike(es []snapEntry) {
	syscall.Umask(0)
	for _, e := range es {
		if e.kind != 'D' || e.path == "/" {
			continue
		}
		if err := os.Mkdir(e.path, e.info.Mode().Perm()); err != nil {
			panic(err)
		}
		if err := os.Chmod(e.path, e.info.Mode()&(fs.ModePerm|fs.ModeSticky|fs.ModeSetgid|fs.ModeSetuid)); err != nil {
			panic(err)
		}
	}
}

type fsoCfg struct {
	admin bool
	links int
}

func runFSO(cfg config) {
	runtime.LockOSThread()
	os.Unsetenv("PWD")
	projMode = true
	o := newOut(cfg.dir, cfg.name)
	defer o.close(cfg.name)
	fora, err := os.Create(filepath.Join(cfg.dir, cfg.name+".oracle"))
	if err != nil {
		panic(err)
	}
	defer fora.Close()
	ora := bufio.NewWriterSize(fora, 1<<20)
	defer ora.Flush()
	scratch := fmt.Sprintf("/dev/shm/verif-%d", os.Getpid())
	defer os.RemoveAll(scratch)

	ofs := osfs.New() // created outside the chroot (its identity manager reads the host's user database once)

	// the implementation under test: memfs (default) or orefafs (symlink-free universe: OrefaFS does not
	// advertise FeatSymlink, so Symlink / Readlink / EvalSymlinks calls are not generated for it)
	fsName := os.Getenv("VERIF_FSO_FS")
	if fsName == "" {
		fsName = "memfs"
	}

	// the oracle side of one history
	runOracle := func(i int, um int, ops []string, snapmode string) string {
		j := enterJail(fmt.Sprintf("%s/h%d", scratch, i))
		defer j.leave()
		ref := newFSWorld(fsName, "linux", um)
		buildLike(ref.snapshotEntries())
		syscall.Umask(um)
		w := &fsWorld{base: ofs, views: []avfs.VFS{ofs}}
		curUmask := um
		var outs []string
		for _, op := range ops {
			t := strings.Fields(op)
			res := applySingle(w, t, true, &curUmask)
			// snapshot as root, then back to the acting identity
			uid, gid := currentFsIdentity()
			setThreadIdentity(0, 0)
			sn := showSnap(snapmode, w.snapshotEntries())
			setThreadIdentity(uid, gid)
			outs = append(outs, res+sn)
		}
		return strings.Join(outs, " | ")
	}

	mode := os.Getenv("VERIF_FSO_MODE") // admin | dac | sym
	if mode == "" {
		mode = "admin"
	}
	if rl := cfg.replayLines(); rl != nil {
		for i, l := range rl {
			parts := strings.Split(l, " | ")
			hd := strings.Fields(parts[0])
			um := atoi(hd[2])
			w := newFSWorld(hd[0], "linux", um)
			var outs []string
			dummy := 0
			for _, op := range parts[1:] {
				res := guarded(func() string { return applySingle(w, strings.Fields(op), false, &dummy) })
				if res == "DEADLOCK" || res == "PANIC" {
					outs = append(outs, res+" #-")
					break
				}
				outs = append(outs, res+showSnap(hd[3], w.snapshotEntries()))
			}
			o.emit(l, strings.Join(outs, " | "), "")
			ora.WriteString(runOracle(i, um, parts[1:], hd[3]) + "\n")
		}
		return
	}
	nh, hl := 500, 40
	if cfg.tier == "thorough" {
		nh, hl = 6000, 60
	}
	o.rule = fmt.Sprintf("mode %s: %d random histories of %d namespace calls on lexically clean paths over names {a,b,c} (state-aware templates: existing / child of existing dir, file, symlink / missing parent / root / relative), executed on MemFS and on Linux (OsFS in a chroot on tmpfs, acting identity set with setfsuid/setfsgid/setgroups on the calling thread); per call: outcome/errno/returned data and the digest of the full tree (names, types, permission bits, owners, sizes, contents, link counts, link targets)", mode, nh, hl)
	r := &rng{s: cfg.seed*104729 + 7}
	lens := 0
	for i := 0; i < nh; i++ {
		um := r.pick2([]int{0o22, 0o22, 0, 0o77, 0o27})
		hdr := fmt.Sprintf("%s linux %d md5", fsName, um)
		w := newFSWorld(fsName, "linux", um)
		g := &fsGen{r: r, w: w, admin: mode != "dac", nviews: 1, single: true, clean: true, noEval: mode != "sym", dac: mode == "dac"}
		if mode == "sym" {
			g.links = 3
		}
		g.snap = w.snapshotEntries()
		// The implementation side runs in its own goroutine (one hand-over per history, not per call: the
		// main goroutine is locked to its thread for the oracle's per-thread identity); a call that does
		// not return within the time limit is a DEADLOCK and ends the history.
		type msg struct {
			op, res string
			done    bool
		}
		ch := make(chan msg, 2*hl+2)
		go func() {
			defer close(ch)
			dummy := 0
			for j := 0; j < hl; j++ {
				op := g.op()
				if strings.HasPrefix(op, "UM ") && mode == "admin" && j%3 != 0 {
					continue
				}
				if !inUniverse(op) {
					continue
				}
				if fsName == "orefafs" && (strings.HasPrefix(op, "SL ") || strings.HasPrefix(op, "RL ") || strings.HasPrefix(op, "ES ")) {
					continue
				}
				if mode == "dac" && strings.HasPrefix(op, "RA ") {
					// a non-administrator's RemoveAll stops at the first refusal in an unspecified order
					continue
				}
				ch <- msg{op: op}
				res := func() (r string) {
					defer func() {
						if recover() != nil {
							r = "PANIC"
						}
					}()
					return applySingle(w, strings.Fields(op), false, &dummy)
				}()
				if res == "PANIC" {
					ch <- msg{op: op, res: res + " #-", done: true}
					return
				}
				g.snap = w.snapshotEntries()
				ch <- msg{op: op, res: res + showSnap("md5", g.snap), done: true}
			}
		}()
		var ops, outs []string
	collect:
		for {
			select {
			case m, ok := <-ch:
				if !ok {
					break collect
				}
				if !m.done {
					ops = append(ops, m.op)
					continue
				}
				outs = append(outs, m.res)
				o.count("op:" + opKind(m.op))
				o.count("res:" + resKind(m.res))
				o.distinct[opKind(m.op)+"/"+m.res] = struct{}{}
			case <-time.After(5 * time.Second):
				outs = append(outs, "DEADLOCK #-")
				o.count("res:DEADLOCK")
				break collect
			}
		}
		if len(outs) < len(ops) {
			ops = ops[:len(outs)]
		}
		lens += len(ops)
		o.emit(hdr+" | "+strings.Join(ops, " | "), strings.Join(outs, " | "), "")
		ora.WriteString(runOracle(i, um, ops, "md5") + "\n")
	}
	o.extra["total_calls"] = lens
	o.extra["evaluations"] = lens
	o.extra["kernel"] = kernelKnobs()
}

func guarded(f func() string) string {
	ch := make(chan string, 1)
	go func() {
		defer func() {
			if r := recover(); r != nil {
				ch <- "PANIC"
			}
		}()
		ch <- f()
	}()
	select {
	case r := <-ch:
		return r
	case <-time.After(3 * time.Second):
		return "DEADLOCK"
	}
}

func currentFsIdentity() (int, int) {
	// setfsuid(-1) returns the current value without changing it
	u, _, _ := syscall.RawSyscall(syscall.SYS_SETFSUID, ^uintptr(0), 0, 0)
	g, _, _ := syscall.RawSyscall(syscall.SYS_SETFSGID, ^uintptr(0), 0, 0)
	return int(int32(u)), int(int32(g))
}

func kernelKnobs() map[string]string {
	m := map[string]string{}
	for _, k := range []string{"protected_hardlinks", "protected_symlinks", "protected_regular", "protected_fifos"} {
		b, err := os.ReadFile("/proc/sys/fs/" + k)
		if err == nil {
			m[k] = strings.TrimSpace(string(b))
		}
	}
	return m
}

// inUniverse: the path operands the oracle streams quantify over (DESIGN 5 C01): non-empty, lexically clean,
// last element neither "." nor ".."; the root directory is an operand of read-only calls only.  The excluded
// shapes are covered by the fixed witness corpus of the known findings (empty path taken as the current
// directory, errno of operations on the root directory).
func inUniverse(op string) bool {
	t := strings.Fields(op)
	var paths []string
	mutating := true
	switch t[0] {
	case "ST", "LS", "RD", "RF", "RL", "CD", "ES", "WD":
		mutating = false
	}
	switch t[0] {
	case "RN", "LN":
		paths = []string{untok(t[2]), untok(t[3])}
	case "SL":
		if untok(t[2]) == "" {
			return false
		}
		paths = []string{untok(t[3])}
	case "WD", "SU", "UM":
		return true
	default:
		paths = []string{untok(t[2])}
	}
	if t[0] == "ES" && !strings.HasPrefix(untok(t[2]), "/") {
		return false // filepath.EvalSymlinks keeps a relative argument relative, MemFS answers with an absolute path
	}
	for _, p := range paths {
		if p == "" {
			return false
		}
		b := filepath.Base(p)
		if b == "." || b == ".." {
			return false
		}
		if p == "/" && mutating {
			return false
		}
	}
	if t[0] == "OP" && untok(t[2]) == "/" && atoi(t[3]) != 0 {
		return false
	}
	return true
}
