package main

// Bounded-exhaustive companion of the `fs` stream: breadth-first search over DISTINCT tree states (dedup by
// snapshot digest) from the fresh file system; in every state reached within the depth bound EVERY call of a
// deterministic, state-aware template list is evaluated once (implementation vs the Coq world model, by the same
// driver command `fs`).

import (
	"fmt"
	"os"
	"sort"
	"strings"
)

func init() { commands["fsbfs"] = runFSBFS }

var bfsNames = []string{"a", "b"}

// bfsPaths: the candidate path operands in a state.
func bfsPaths(snap []snapEntry) (all, existing, files, dirs []string) {
	seen := map[string]bool{}
	add := func(p string) {
		if !seen[p] {
			seen[p] = true
			all = append(all, p)
		}
	}
	for _, e := range snap {
		// keep the universe small: the root, /tmp and what the history created (not /home, /root)
		if e.path == "/home" || e.path == "/root" {
			continue
		}
		existing = append(existing, e.path)
		add(e.path)
		switch e.kind {
		case 'D':
			dirs = append(dirs, e.path)
			for _, n := range bfsNames {
				add(pjoin(e.path, n))
			}
		case 'F':
			files = append(files, e.path)
			add(pjoin(e.path, "a"))
		case 'L':
			add(pjoin(e.path, "a"))
		}
	}
	for _, p := range []string{"/x/y", "a", "./a", "..", ".", "", "/tmp/../a", "/a/"} {
		add(p)
	}
	return
}

// bfsCalls: every template call in a state (view 0, no handle kept: OP results in a handle that is never used).
func bfsCalls(snap []snapEntry) []string {
	all, existing, files, _ := bfsPaths(snap)
	var cs []string
	for _, p := range all {
		t := tok(p)
		cs = append(cs,
			"MK 0 "+t+" 493", "MA 0 "+t+" 448",
			fmt.Sprintf("OP 0 %s %d 420", t, os.O_RDONLY),
			fmt.Sprintf("OP 0 %s %d 420", t, os.O_CREATE|os.O_RDWR),
			fmt.Sprintf("OP 0 %s %d 384", t, os.O_CREATE|os.O_EXCL|os.O_WRONLY),
			fmt.Sprintf("OP 0 %s %d 420", t, os.O_TRUNC|os.O_WRONLY),
			"WF 0 "+t+" "+tok("xy")+" 420",
			"RM 0 "+t, "RA 0 "+t, "RL 0 "+t, "TR 0 "+t+" 1", "TR 0 "+t+" -1", "CM 0 "+t+" 448", "CO 0 "+t+" 1000 1000", "LC 0 "+t+" -1 1001",
			"CT 0 "+t, "CD 0 "+t, "ST 0 "+t, "LS 0 "+t, "ES 0 "+t, "RD 0 "+t, "RF 0 "+t, "SB 0 "+t)
		for _, tg := range []string{"a", "../a", "/tmp", "/a", "."} {
			cs = append(cs, "SL 0 "+tok(tg)+" "+t)
		}
	}
	for _, o := range existing {
		for _, n := range all {
			cs = append(cs, "RN 0 "+tok(o)+" "+tok(n))
		}
	}
	for _, o := range append(append([]string{}, files...), "/tmp", "/x") {
		for _, n := range all {
			cs = append(cs, "LN 0 "+tok(o)+" "+tok(n))
		}
	}
	cs = append(cs, "WD 0", "UM 0 63", "SU 0 1000 1000 0")
	return cs
}

func runFSBFS(cfg config) {
	o := newOut(cfg.dir, cfg.name)
	defer o.close(cfg.name)
	if rl := cfg.replayLines(); rl != nil {
		for _, l := range rl {
			o.emit(l, runFSHistory(l), "")
		}
		return
	}
	depth, maxStates := 2, 1200
	if cfg.tier == "thorough" {
		depth, maxStates = 3, 12000
	}
	hdr := "memfs linux 18 md5"
	type st struct{ ops []string }
	frontier := []st{{}}
	seen := map[string]bool{}
	{
		w := newFSWorld("memfs", "linux", 18)
		seen[showSnap("md5", w.snapshotEntries())] = true
	}
	pairs, states := 0, 1
	for d := 0; d < depth; d++ {
		var next []st
		for _, s := range frontier {
			// rebuild the state
			w := newFSWorld("memfs", "linux", 18)
			bad := false
			for _, op := range s.ops {
				r := w.applyGuarded(strings.Fields(op))
				if r == "DEADLOCK" || r == "PANIC" {
					bad = true
					break
				}
			}
			if bad {
				continue
			}
			calls := bfsCalls(w.snapshotEntries())
			sort.Strings(calls)
			for _, c := range calls {
				line := hdr + " | " + strings.Join(append(append([]string{}, s.ops...), c), " | ")
				obs := runFSHistory(line)
				parts := strings.Split(obs, " | ")
				last := parts[len(parts)-1]
				o.emit(line, obs, opKind(c)+"/"+last)
				o.count("op:" + opKind(c))
				o.count("res:" + resKind(last))
				pairs++
				if d+1 < depth && len(parts) == len(s.ops)+1 && !strings.HasPrefix(last, "PANIC") && !strings.HasPrefix(last, "DEADLOCK") {
					if i := strings.Index(last, " #"); i >= 0 {
						dg := last[i:]
						if !seen[dg] && states < maxStates && !strings.HasPrefix(c, "OP ") && !strings.HasPrefix(c, "SB ") {
							seen[dg] = true
							states++
							next = append(next, st{ops: append(append([]string{}, s.ops...), c)})
						}
					}
				}
			}
		}
		frontier = next
	}
	o.rule = fmt.Sprintf("breadth-first search to depth %d over distinct tree states (dedup by snapshot digest, at most %d states): in each state every call of the template list (23 single-path calls x every candidate path [existing, child a/b of every directory, below a file/symlink, missing parent, '.', '..', '', relative, unclean], 5 symlink targets, Rename existing x candidate, Link file x candidate, Getwd, SetUMask, SetUser) is evaluated once: %d (state, call) pairs, %d distinct states", depth, maxStates, pairs, states)
	o.extra["evaluations"] = pairs
	o.extra["distinct_states"] = states
	o.extra["exhaustive_within_bounds"] = true
}
