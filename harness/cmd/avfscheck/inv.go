package main

// Property C05, implementation side: after every call of a generated history the tree of the real
// MemFS is inspected through the API (the observables named by the property):
//   - the walk from the root of every view terminates (no directory below itself),
//   - every name listed by ReadDir can be Lstat'ed, listings are sorted and duplicate free,
//   - the Nlink of every regular file equals the number of walked paths that are SameFile with it,
//     and all those paths show the same size, mode, owner and content.
// Output per call: 1 (holds) or 0:<reason>.  The driver command "fsinv" prints, for the same
// history, the proved-sound executable check InvCheck.inv_check on the model state: all 1.
// The generator is the one of the "fs" stream plus calls biased to aliasing operands (a directory
// and a path below it, two existing nodes, several names of one file, the root, RemoveAll by a
// non-administrator so that a permission error interrupts it).

import (
	"fmt"
	"io/fs"
	"sort"
	"strconv"
	"strings"

	"github.com/avfs/avfs"
)

func init() { commands["fsinv"] = runFSInv }

const invMaxDepth = 48
const invMaxNodes = 20000

type invFile struct {
	info  fs.FileInfo
	paths []string
	sig   []string
}

// apiInvView walks one view. Permission errors of the view's user are not violations (the subtree is skipped).
func apiInvView(v avfs.VFS, exact bool) string {
	var files []*invFile
	nodes := 0
	var bad string
	var walk func(p string, depth int)
	walk = func(p string, depth int) {
		if bad != "" {
			return
		}
		nodes++
		if depth > invMaxDepth || nodes > invMaxNodes {
			bad = "walk-does-not-terminate:" + tok(p)
			return
		}
		info, err := v.Lstat(p)
		if err != nil {
			c := errCode(err)
			if c == "L13" || c == "L1" {
				return
			}
			bad = "listed-but-lstat-fails:" + tok(p) + ":" + c
			return
		}
		switch {
		case info.IsDir():
			des, err := v.ReadDir(p)
			if err != nil {
				c := errCode(err)
				if c == "L13" || c == "L1" {
					return
				}
				bad = "readdir-fails:" + tok(p) + ":" + c
				return
			}
			names := make([]string, 0, len(des))
			for _, de := range des {
				names = append(names, de.Name())
			}
			if !sort.StringsAreSorted(names) {
				bad = "listing-not-sorted:" + tok(p)
				return
			}
			for i := 1; i < len(names); i++ {
				if names[i] == names[i-1] {
					bad = "listing-duplicate:" + tok(p)
					return
				}
			}
			for _, n := range names {
				walk(pjoin(p, n), depth+1)
			}
		case info.Mode()&fs.ModeSymlink != 0:
		default:
			st := v.ToSysStat(info)
			data, rerr := v.ReadFile(p)
			ds := tok(string(data))
			if rerr != nil {
				ds = "!" // unreadable for this user: content not compared
			}
			sig := fmt.Sprintf("%d %d %d %d %d", info.Size(), uint32(info.Mode()), st.Uid(), st.Gid(), st.Nlink())
			var f *invFile
			for _, g := range files {
				if v.SameFile(g.info, info) {
					f = g
					break
				}
			}
			if f == nil {
				f = &invFile{info: info}
				files = append(files, f)
			}
			f.paths = append(f.paths, p)
			f.sig = append(f.sig, sig+" "+ds)
		}
	}
	walk("/", 0)
	if bad != "" {
		return bad
	}
	for _, f := range files {
		st := v.ToSysStat(f.info)
		if int(st.Nlink()) != len(f.paths) {
			// a Sub view does not see the names outside its subtree, and names in directories its user cannot list are
			// not counted: there only MORE names than Nlink is an error; the administrator's view of the whole tree is exact
			if int(st.Nlink()) < len(f.paths) || exact {
				return fmt.Sprintf("nlink-%d-but-%d-names:%s", st.Nlink(), len(f.paths), tok(strings.Join(f.paths, ",")))
			}
		}
		for i := 1; i < len(f.sig); i++ {
			a, b := f.sig[0], f.sig[i]
			if strings.HasSuffix(a, " !") || strings.HasSuffix(b, " !") {
				a, b = a[:strings.LastIndex(a, " ")], b[:strings.LastIndex(b, " ")]
			}
			if a != b {
				return "names-of-one-file-differ:" + tok(f.paths[0]) + ":" + tok(f.paths[i])
			}
		}
	}
	return ""
}

func (w *fsWorld) apiInv() string {
	if r := apiInvView(w.base, true); r != "" {
		return "0:base:" + r
	}
	for i, v := range w.views {
		if r := apiInvView(v, false); r != "" {
			return fmt.Sprintf("0:view%d:%s", i, r)
		}
	}
	return "1"
}

func (w *fsWorld) apiInvGuarded() string {
	ch := make(chan string, 1)
	go func() {
		defer func() {
			if r := recover(); r != nil {
				ch <- "0:panic-in-walk"
			}
		}()
		ch <- w.apiInv()
	}()
	return <-ch
}

func runFSInvHistory(line string) string {
	parts := strings.Split(line, " | ")
	hd := strings.Fields(parts[0])
	w := newFSWorld(hd[0], hd[1], atoi(hd[2]))
	var outs []string
	for _, o := range parts[1:] {
		r := w.applyGuarded(strings.Fields(o))
		if r == "DEADLOCK" || r == "PANIC" {
			outs = append(outs, "0:"+r)
			break
		}
		outs = append(outs, w.apiInvGuarded())
	}
	return strings.Join(outs, " | ")
}

// aliasing operands
func (g *fsGen) invOp() string {
	r := g.r
	vs := strconv.Itoa(r.intn(g.nviews))
	switch k := r.intn(20); {
	case k < 3: // a directory into a path below itself
		d := g.existing('D')
		return fmt.Sprintf("RN %s %s %s", vs, tok(d), tok(pjoin(pjoin(d, r.pick(fsNames)), r.pick(fsNames))))
	case k < 5:
		d := g.existing('D')
		return fmt.Sprintf("RN %s %s %s", vs, tok(d), tok(pjoin(d, r.pick(fsNames))))
	case k < 8: // two existing nodes
		return fmt.Sprintf("RN %s %s %s", vs, tok(g.existing(0)), tok(g.existing(0)))
	case k < 10: // one more name for a file, possibly an existing one
		return fmt.Sprintf("LN %s %s %s", vs, tok(g.existing('F')), tok(g.path()))
	case k < 12:
		return fmt.Sprintf("RN %s %s %s", vs, tok(g.existing('F')), tok(g.existing('F')))
	case k < 14:
		return fmt.Sprintf("RA %s %s", vs, tok(g.existing('D')))
	case k < 15:
		return fmt.Sprintf("RN %s %s %s", vs, tok("/"), tok(g.path()))
	case k < 16:
		return fmt.Sprintf("RN %s %s %s", vs, tok(g.path()), tok("/"))
	case k < 17:
		return fmt.Sprintf("RM %s %s", vs, tok(g.existing(0)))
	case k < 18:
		if g.nviews < 4 {
			return fmt.Sprintf("SB %s %s", vs, tok(g.existing('D')))
		}
		return fmt.Sprintf("RM %s %s", vs, tok(g.existing('D')))
	case k < 19:
		return fmt.Sprintf("WF %s %s %s 420", vs, tok(""), tok("x"))
	default:
		return fmt.Sprintf("OP %s %s %d 420", vs, tok(g.existing('F')), g.flag())
	}
}

func runFSInv(cfg config) {
	o := newOut(cfg.dir, cfg.name)
	defer o.close(cfg.name)
	if rl := cfg.replayLines(); rl != nil {
		for _, l := range rl {
			o.emit(l, runFSInvHistory(l), "")
		}
		return
	}
	nh, hl := 300, 40
	if cfg.tier == "thorough" {
		nh, hl = 4000, 70
	}
	o.rule = fmt.Sprintf("%d random histories of %d calls: the fs-stream generator (state-aware paths over {a,b,c}, all namespace and handle calls, Sub views, SetUser) mixed 1:2 with calls on aliasing operands (directory and a path below it, two existing nodes, names of one file, the root, RemoveAll by non-administrators, empty name); after every call the tree of the real MemFS is walked through the API from the root of the base and of every Sub view (termination, listing sorted/duplicate free/Lstat-able, Nlink = number of SameFile paths, equal attributes and content) and compared with inv_check on the model state; histories continue after an interrupted RemoveAll", nh, hl)
	r := &rng{s: cfg.seed*104729 + 5}
	lens := 0
	for i := 0; i < nh; i++ {
		um := r.pick2([]int{0o22, 0o22, 0, 0o77})
		hdr := fmt.Sprintf("memfs linux %d none", um)
		w := newFSWorld("memfs", "linux", um)
		g := &fsGen{r: r, w: w, admin: i%3 == 0, nviews: 1, dac: i%3 == 1}
		g.snap = w.snapshotEntries()
		var ops, outs []string
		for j := 0; j < hl; j++ {
			g.nviews = len(w.views)
			var op string
			if len(g.pending) == 0 && r.chance(1, 3) {
				op = g.invOp()
			} else {
				op = g.op()
			}
			res := w.applyGuarded(strings.Fields(op))
			ops = append(ops, op)
			o.count("op:" + opKind(op))
			o.count("res:" + resKind(res))
			if res == "DEADLOCK" || res == "PANIC" {
				outs = append(outs, "0:"+res)
				break
			}
			if raInterrupted(op, res) {
				o.count("removeall-interrupted")
			}
			iv := w.apiInvGuarded()
			outs = append(outs, iv)
			g.snap = w.snapshotEntries()
			o.distinct[opKind(op)+"/"+resKind(res)+showSnap("md5", g.snap)] = struct{}{}
		}
		lens += len(ops)
		o.emit(hdr+" | "+strings.Join(ops, " | "), strings.Join(outs, " | "), "")
	}
	o.extra["total_calls"] = lens
	o.extra["evaluations"] = lens
}
