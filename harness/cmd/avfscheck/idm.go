package main

import (
	"fmt"
	"strings"

	"github.com/avfs/avfs"
	"github.com/avfs/avfs/idm/memidm"
)

func init() {
	commands["idm"] = runIdm
	// the same histories on a Windows-typed MemIdm (other administrator names); needs the build with -tags avfs_setostype
	commands["idmwin"] = func(cfg config) { idmWindows = true; runIdm(cfg) }
}

var idmWindows bool

type idmOp struct {
	kind string
	a, b string
	id   int
}

func (o idmOp) String() string {
	switch o.kind {
	case "AU":
		return "AU " + tok(o.a) + " " + tok(o.b)
	case "LGI", "LUI":
		return fmt.Sprintf("%s %d", o.kind, o.id)
	default:
		return o.kind + " " + tok(o.a)
	}
}

func showGroup(g avfs.GroupReader) string { return fmt.Sprintf("G %s %d", tok(g.Name()), g.Gid()) }
func showUser(u avfs.UserReader) string {
	a := 0
	if u.IsAdmin() {
		a = 1
	}
	return fmt.Sprintf("U %s %d %d %d", tok(u.Name()), u.Uid(), u.Gid(), a)
}
func showIdmErr(err error) string {
	switch e := err.(type) {
	case avfs.AlreadyExistsGroupError:
		return "E AEG " + tok(string(e))
	case avfs.AlreadyExistsUserError:
		return "E AEU " + tok(string(e))
	case avfs.UnknownGroupError:
		return "E UG " + tok(string(e))
	case avfs.UnknownUserError:
		return "E UU " + tok(string(e))
	case avfs.UnknownGroupIdError:
		return fmt.Sprintf("E UGI %d", int(e))
	case avfs.UnknownUserIdError:
		return fmt.Sprintf("E UUI %d", int(e))
	default:
		return "E OTHER " + tok(fmt.Sprintf("%T:%v", err, err))
	}
}

func applyIdm(idm *memidm.MemIdm, o idmOp) (res string) {
	defer func() {
		if r := recover(); r != nil {
			res = "PANIC " + tok(fmt.Sprint(r))
		}
	}()
	switch o.kind {
	case "AG":
		g, err := idm.AddGroup(o.a)
		if err != nil {
			return showIdmErr(err)
		}
		return showGroup(g)
	case "AU":
		u, err := idm.AddUser(o.a, o.b)
		if err != nil {
			return showIdmErr(err)
		}
		return showUser(u)
	case "DG":
		if err := idm.DelGroup(o.a); err != nil {
			return showIdmErr(err)
		}
		return "NIL"
	case "DU":
		if err := idm.DelUser(o.a); err != nil {
			return showIdmErr(err)
		}
		return "NIL"
	case "LG":
		g, err := idm.LookupGroup(o.a)
		if err != nil {
			return showIdmErr(err)
		}
		return showGroup(g)
	case "LGI":
		g, err := idm.LookupGroupId(o.id)
		if err != nil {
			return showIdmErr(err)
		}
		return showGroup(g)
	case "LU":
		u, err := idm.LookupUser(o.a)
		if err != nil {
			return showIdmErr(err)
		}
		return showUser(u)
	case "LUI":
		u, err := idm.LookupUserId(o.id)
		if err != nil {
			return showIdmErr(err)
		}
		return showUser(u)
	}
	panic("bad op")
}

func runIdmHistory(ops []idmOp) (string, string, []string) {
	idm := memidm.New()
	if idmWindows {
		idm = memidm.NewWithOptions(&memidm.Options{OSType: avfs.OsWindows})
	}
	an, gn := avfs.AdminUserName(idm.OSType()), avfs.AdminGroupName(idm.OSType())
	var sb strings.Builder
	sb.WriteString(tok(an) + " " + tok(gn))
	res := make([]string, 0, len(ops))
	for _, o := range ops {
		sb.WriteString(" | " + o.String())
		res = append(res, applyIdm(idm, o))
	}
	return sb.String(), strings.Join(res, " | "), res
}

func parseIdmOp(s string) idmOp {
	f := strings.Fields(s)
	switch f[0] {
	case "AU":
		return idmOp{kind: "AU", a: untok(f[1]), b: untok(f[2])}
	case "LGI", "LUI":
		var id int
		fmt.Sscan(f[1], &id)
		return idmOp{kind: f[0], id: id}
	default:
		return idmOp{kind: f[0], a: untok(f[1])}
	}
}

func runIdm(cfg config) {
	if ls := cfg.replayLines(); ls != nil {
		o := newOut(cfg.dir, cfg.name)
		for _, l := range ls {
			parts := strings.Split(l, " | ")
			var ops []idmOp
			for _, p := range parts[1:] {
				ops = append(ops, parseIdmOp(p))
			}
			c, obs, _ := runIdmHistory(ops)
			o.emit(c, obs, "")
		}
		o.close(cfg.name)
		return
	}
	o := newOut(cfg.dir, cfg.name)
	o.rule = "BFS over distinct observable states reached by the mutators AddGroup/AddUser/DelGroup/DelUser on a pool of names " +
		"(admin names included); per (state, mutator) one history = path to the state + the mutator + every lookup by name and by id; " +
		"then seeded random histories; a case is non-trivial when it is distinct (as a full result vector) and contains at least one success and one error"
	names := []string{"root", "a", "b", ""}
	if idmWindows {
		names = []string{avfs.AdminUserName(avfs.OsWindows), avfs.AdminGroupName(avfs.OsWindows), "a", ""}
	}
	ids := []int{0, 1000, 1001, 1002, 1003, 1004, -1}
	depth, nrand, randLen := 4, 200, 60
	if cfg.tier == "thorough" {
		depth, nrand, randLen = 5, 3000, 300
		names = append(names, "Default")
	}
	var muts, probes []idmOp
	for _, n := range names {
		muts = append(muts, idmOp{kind: "AG", a: n}, idmOp{kind: "DG", a: n}, idmOp{kind: "DU", a: n})
		for _, g := range names {
			muts = append(muts, idmOp{kind: "AU", a: n, b: g})
		}
		probes = append(probes, idmOp{kind: "LG", a: n}, idmOp{kind: "LU", a: n})
	}
	for _, i := range ids {
		probes = append(probes, idmOp{kind: "LGI", id: i}, idmOp{kind: "LUI", id: i})
	}
	record := func(ops []idmOp) []string {
		c, obs, res := runIdmHistory(ops)
		ok, ko := false, false
		for i, r := range res {
			o.count("op:" + ops[i].kind)
			k := strings.SplitN(r, " ", 3)
			if k[0] == "E" {
				ko = true
				o.count("res:" + k[0] + " " + k[1])
			} else {
				ok = true
				o.count("res:" + k[0])
			}
		}
		key := ""
		if ok && ko {
			key = obs
		}
		o.emit(c, obs, key)
		return res
	}
	// BFS over distinct states
	type st struct{ path []idmOp }
	seen := map[string]bool{}
	frontier := []st{{}}
	states := 0
	for d := 0; d <= depth; d++ {
		var next []st
		for _, s := range frontier {
			for _, m := range muts {
				h := append(append([]idmOp{}, s.path...), m)
				full := append(append([]idmOp{}, h...), probes...)
				res := record(full)
				// the state after h is characterised by the probe answers (+ the next ids, probed by ids list)
				key := strings.Join(res[len(h):], "|")
				if !seen[key] && d < depth {
					seen[key] = true
					states++
					next = append(next, st{path: h})
				}
			}
		}
		frontier = next
	}
	o.extra["bfs_states"] = states
	o.extra["bfs_depth"] = depth
	// random histories
	r := &rng{s: cfg.seed}
	for i := 0; i < nrand; i++ {
		n := 1 + r.intn(randLen)
		ops := make([]idmOp, 0, n)
		for j := 0; j < n; j++ {
			if r.chance(2, 3) {
				ops = append(ops, muts[r.intn(len(muts))])
			} else {
				p := probes[r.intn(len(probes))]
				if (p.kind == "LGI" || p.kind == "LUI") && r.chance(1, 2) {
					p.id = 1000 + r.intn(n)
				}
				ops = append(ops, p)
			}
		}
		record(ops)
		o.count(fmt.Sprintf("histlen:%d-%d", n/50*50, n/50*50+49))
	}
	o.close(cfg.name)
}
