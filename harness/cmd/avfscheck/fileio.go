package main

// Property C02 - open-file I/O behaves as os.File.
// The same histories of handle operations run on three worlds: MemFS, OrefaFS (both built from /repo) and
// real *os.File in a fresh directory under /dev/shm (tmpfs).  ml/drv_fileio.ml predicts the first two from
// the extracted implementation model and the third from the extracted specification (FileSpec.v).
// case line:     file | op | op ...      or    dir <name,name,...> | op | op ...
// observed line: per step "m:<MemFS> o:<OrefaFS> s:<os.File> vm:<view> vo:<view> vs:<view>"
//                (directory histories: "m: o: s: cm: co:", c* = order-independent rendering)

import (
	"crypto/md5"
	"encoding/hex"
	"errors"
	"fmt"
	"io"
	"io/fs"
	"os"
	"path/filepath"
	"sort"
	"strconv"
	"strings"
	"sync"
	"sync/atomic"
	"syscall"

	"github.com/avfs/avfs"
	"github.com/avfs/avfs/vfs/memfs"
	"github.com/avfs/avfs/vfs/orefafs"
)

func init() { commands["fileio"] = runFileIO; commands["fileio-o"] = runFileIOProj }

// ---- error kinds ---------------------------------------------------------------
func fioKind(err error) string {
	if err == nil {
		return "nil"
	}
	if err == io.EOF {
		return "EOF"
	}
	var pe *fs.PathError
	var le *os.LinkError
	if errors.As(err, &pe) {
		err = pe.Err
	} else if errors.As(err, &le) {
		err = le.Err
	}
	var no uintptr
	switch e := err.(type) {
	case avfs.LinuxError:
		no = uintptr(e)
	case syscall.Errno:
		no = uintptr(e)
	case avfs.CustomError:
		switch e {
		case avfs.ErrNegativeOffset:
			return "NEGOFF"
		case avfs.ErrFileClosing:
			return "CLOSED"
		case avfs.ErrWriteAtInAppendMode:
			return "APPENDWRITEAT"
		}
		return "OTHER"
	default:
		switch {
		case err == fs.ErrClosed:
			return "CLOSED"
		case err == io.EOF:
			return "EOF"
		case err.Error() == "use of closed file":
			return "CLOSED"
		case err.Error() == "negative offset":
			return "NEGOFF"
		case strings.Contains(err.Error(), "invalid use of WriteAt"):
			return "APPENDWRITEAT"
		}
		return "OTHER"
	}
	switch no {
	case 9:
		return "EBADF"
	case 22:
		return "EINVAL"
	case 21:
		return "EISDIR"
	case 20:
		return "ENOTDIR"
	case 17:
		return "EEXIST"
	case 2:
		return "ENOENT"
	}
	return "OTHER"
}

func fioErr(err error) string {
	if err == nil {
		return "ok"
	}
	return "E:" + fioKind(err)
}

// ---- worlds ----------------------------------------------------------------------
type fioWorld struct {
	vfs     avfs.VFS // nil for the real operating system
	dir     string
	handles []avfs.File // *os.File satisfies avfs.File
}

func (w *fioWorld) p(name string) string { return w.dir + "/" + name }

func (w *fioWorld) info(fi fs.FileInfo) string {
	if w.vfs != nil {
		st := w.vfs.ToSysStat(fi)
		return fmt.Sprintf("I:%d:%d:%d:%d:%d", fi.Size(), st.Nlink(), uint32(fi.Mode()), st.Uid(), st.Gid())
	}
	st := fi.Sys().(*syscall.Stat_t)
	return fmt.Sprintf("I:%d:%d:%d:%d:%d", fi.Size(), st.Nlink, uint32(fi.Mode()), st.Uid, st.Gid)
}

func (w *fioWorld) open(name string, flag int, perm fs.FileMode) (avfs.File, error) {
	if w.vfs != nil {
		return w.vfs.OpenFile(w.p(name), flag, perm)
	}
	f, err := os.OpenFile(w.p(name), flag, perm)
	if err != nil {
		return nil, err // not a typed nil inside the interface
	}
	return f, nil
}

func fioData(n int, b []byte, err error) string {
	if err != nil && err != io.EOF {
		return "E:" + fioKind(err)
	}
	return fmt.Sprintf("B:%d:%s:%s", n, tok(string(b[:n])), fioKind(err))
}

func (w *fioWorld) apply(t []string) string {
	h := func() avfs.File {
		i := atoi(t[1])
		if i < 0 || i >= len(w.handles) {
			return nil
		}
		return w.handles[i]
	}
	switch t[0] {
	case "OP":
		f, err := w.open(untok(t[1]), atoi(t[2]), fs.FileMode(atoi64(t[3])))
		if err != nil {
			return "E:" + fioKind(err)
		}
		w.handles = append(w.handles, f)
		return fmt.Sprintf("H:%d", len(w.handles)-1)
	case "PT":
		if w.vfs != nil {
			return fioErr(w.vfs.Truncate(w.p(untok(t[1])), atoi64(t[2])))
		}
		return fioErr(os.Truncate(w.p(untok(t[1])), atoi64(t[2])))
	case "PRN":
		if w.vfs != nil {
			return fioErr(w.vfs.Rename(w.p(untok(t[1])), w.p(untok(t[2]))))
		}
		return fioErr(os.Rename(w.p(untok(t[1])), w.p(untok(t[2]))))
	case "PLN":
		if w.vfs != nil {
			return fioErr(w.vfs.Link(w.p(untok(t[1])), w.p(untok(t[2]))))
		}
		return fioErr(os.Link(w.p(untok(t[1])), w.p(untok(t[2]))))
	case "PRM":
		if w.vfs != nil {
			return fioErr(w.vfs.Remove(w.p(untok(t[1]))))
		}
		return fioErr(os.Remove(w.p(untok(t[1]))))
	case "PRF":
		var b []byte
		var err error
		if w.vfs != nil {
			b, err = w.vfs.ReadFile(w.p(untok(t[1])))
		} else {
			b, err = os.ReadFile(w.p(untok(t[1])))
		}
		if err != nil {
			return "E:" + fioKind(err)
		}
		return fmt.Sprintf("B:%d:%s:nil", len(b), tok(string(b)))
	case "PST":
		var fi fs.FileInfo
		var err error
		if w.vfs != nil {
			fi, err = w.vfs.Stat(w.p(untok(t[1])))
		} else {
			fi, err = os.Stat(w.p(untok(t[1])))
		}
		if err != nil {
			return "E:" + fioKind(err)
		}
		return w.info(fi)
	}
	f := h()
	if f == nil {
		return "BADINDEX"
	}
	switch t[0] {
	case "R":
		n := atoi(t[2])
		if n < 0 {
			n = 0
		}
		b := make([]byte, n)
		k, err := f.Read(b)
		return fioData(k, b, err)
	case "RA":
		n := atoi(t[2])
		if n < 0 {
			n = 0
		}
		b := make([]byte, n)
		k, err := f.ReadAt(b, atoi64(t[3]))
		return fioData(k, b, err)
	case "W":
		k, err := f.Write([]byte(untok(t[2])))
		if err != nil {
			return "E:" + fioKind(err)
		}
		return fmt.Sprintf("N:%d", k)
	case "WS":
		k, err := f.WriteString(untok(t[2]))
		if err != nil {
			return "E:" + fioKind(err)
		}
		return fmt.Sprintf("N:%d", k)
	case "WA":
		k, err := f.WriteAt([]byte(untok(t[2])), atoi64(t[3]))
		if err != nil {
			return "E:" + fioKind(err)
		}
		return fmt.Sprintf("N:%d", k)
	case "SK":
		k, err := f.Seek(atoi64(t[2]), atoi(t[3]))
		if err != nil {
			return "E:" + fioKind(err)
		}
		return fmt.Sprintf("N:%d", k)
	case "TR":
		return fioErr(f.Truncate(atoi64(t[2])))
	case "ST":
		fi, err := f.Stat()
		if err != nil {
			return "E:" + fioKind(err)
		}
		return w.info(fi)
	case "SY":
		return fioErr(f.Sync())
	case "CM":
		return fioErr(f.Chmod(fs.FileMode(atoi64(t[2]))))
	case "CO":
		return fioErr(f.Chown(atoi(t[2]), atoi(t[3])))
	case "CD":
		return fioErr(f.Chdir())
	case "CL":
		return fioErr(f.Close())
	}
	return "BADOP"
}

var fioNames = []string{"a", "b"}

// view: what every name and every descriptor shows (query calls only)
func (w *fioWorld) view() string {
	var parts []string
	for _, nm := range fioNames {
		parts = append(parts, w.apply([]string{"PST", tok(nm)}), w.apply([]string{"PRF", tok(nm)}))
	}
	for k := range w.handles {
		ks := strconv.Itoa(k)
		st := w.apply([]string{"ST", ks})
		size := 0
		if strings.HasPrefix(st, "I:") {
			size = atoi(strings.Split(st, ":")[1])
		}
		parts = append(parts, st, w.apply([]string{"RA", ks, strconv.Itoa(size + 1), "0"}))
	}
	return fioDigest(strings.Join(parts, ","))
}

// long views travel as digests (VERIF_FIO_FULLVIEW=1 keeps the text, for debugging a replay)
var fioFullView = os.Getenv("VERIF_FIO_FULLVIEW") == "1"

func fioDigest(v string) string {
	if fioFullView || len(v) <= 32 {
		return v
	}
	d := md5.Sum([]byte(v))
	return hex.EncodeToString(d[:])
}

// offsets: the position of every descriptor (Seek(0, io.SeekCurrent) changes nothing); part of the state key only
func (w *fioWorld) offsets() string {
	var parts []string
	for k := range w.handles {
		parts = append(parts, w.apply([]string{"SK", strconv.Itoa(k), "0", "1"}))
	}
	return strings.Join(parts, ",")
}

func (w *fioWorld) cleanup() {
	for _, f := range w.handles {
		if f != nil {
			f.Close()
		}
	}
	if w.vfs == nil {
		os.RemoveAll(w.dir)
	}
}

type fioTrio struct {
	mem, ore, osw *fioWorld
}

var fioScratch string
var fioSeq int64
var fioScratchOnce sync.Once

func fioScratchDir() string {
	fioScratchOnce.Do(func() {
		d, err := os.MkdirTemp("/dev/shm", "verif-fileio-")
		if err != nil {
			panic(err)
		}
		fioScratch = d
	})
	return fioScratch
}

// parallelMap runs f(0..n-1) on a pool of workers and returns the results in index order
func parallelMap[T any](n int, f func(i int) T) []T {
	out := make([]T, n)
	workers := 8
	if n < workers {
		workers = n
	}
	var next int64 = -1
	var wg sync.WaitGroup
	for w := 0; w < workers; w++ {
		wg.Add(1)
		go func() {
			defer wg.Done()
			for {
				i := int(atomic.AddInt64(&next, 1))
				if i >= n {
					return
				}
				out[i] = f(i)
			}
		}()
	}
	wg.Wait()
	return out
}

func newFioTrio() *fioTrio {
	d := filepath.Join(fioScratchDir(), strconv.FormatInt(atomic.AddInt64(&fioSeq, 1), 10))
	if err := os.Mkdir(d, 0o755); err != nil {
		panic(err)
	}
	return &fioTrio{
		mem: &fioWorld{vfs: memfs.New(), dir: "/tmp"},
		ore: &fioWorld{vfs: orefafs.NewWithOptions(&orefafs.Options{User: huser{uid: 0, gid: 0, admin: true}}), dir: "/tmp"},
		osw: &fioWorld{dir: d},
	}
}

func (t *fioTrio) cleanup() { t.mem.cleanup(); t.ore.cleanup(); t.osw.cleanup() }

func fioGuarded(f func() string) (res string) {
	defer func() {
		if r := recover(); r != nil {
			res = "PANIC"
		}
	}()
	return f()
}

// step applies one op to the three worlds and renders the observation of the step
func (t *fioTrio) step(op string) string {
	tk := strings.Fields(op)
	m := fioGuarded(func() string { return t.mem.apply(tk) })
	o := fioGuarded(func() string { return t.ore.apply(tk) })
	s := fioGuarded(func() string { return t.osw.apply(tk) })
	return fmt.Sprintf("m:%s o:%s s:%s vm:%s vo:%s vs:%s", m, o, s,
		fioGuarded(t.mem.view), fioGuarded(t.ore.view), fioGuarded(t.osw.view))
}

func (t *fioTrio) key() string {
	return t.osw.view() + "#" + t.osw.offsets() + "#" + t.mem.view() + "#" + t.mem.offsets()
}

// size of the file as the operating system sees it (through "a", else through the last open descriptor)
func (t *fioTrio) refSize() int {
	if fi, err := os.Stat(t.osw.p("a")); err == nil {
		return int(fi.Size())
	}
	for k := len(t.osw.handles) - 1; k >= 0; k-- {
		if fi, err := t.osw.handles[k].Stat(); err == nil {
			return int(fi.Size())
		}
	}
	return 0
}

func runFileHistory(ops []string) []string {
	t := newFioTrio()
	defer t.cleanup()
	outs := make([]string, 0, len(ops))
	for _, op := range ops {
		outs = append(outs, t.step(op))
	}
	return outs
}

// ---- alphabet ----------------------------------------------------------------------
func uniqInts(xs []int) []int {
	seen := map[int]bool{}
	var out []int
	for _, x := range xs {
		if !seen[x] {
			seen[x] = true
			out = append(out, x)
		}
	}
	return out
}

var fioOpenFlags []int

func init() {
	for acc := 0; acc < 3; acc++ {
		for opt := 0; opt < 16; opt++ {
			f := acc
			if opt&1 != 0 {
				f |= os.O_APPEND
			}
			if opt&2 != 0 {
				f |= os.O_TRUNC
			}
			if opt&4 != 0 {
				f |= os.O_CREATE
			}
			if opt&8 != 0 {
				f |= os.O_EXCL
			}
			fioOpenFlags = append(fioOpenFlags, f)
		}
	}
}

// handleOps: the calls on descriptor k around the current size S. level: 0 = closed-handle probe set,
// 1 = core, 2 = full
func handleOps(k, S, level int) []string {
	ks := strconv.Itoa(k)
	var out []string
	add := func(f string, a ...any) { out = append(out, fmt.Sprintf(f, a...)) }
	if level == 0 {
		for _, s := range []string{"R %s 0", "R %s 1", "RA %s 0 -1", "RA %s 0 0", "RA %s 2 0", "RA %s 2 -1", "W %s s", "W %s s7879",
			"WA %s s 0", "WA %s s7879 0", "WA %s s7879 -1", "WA %s s -1", "SK %s 0 0", "SK %s 0 5", "TR %s -1", "TR %s 0", "ST %s", "SY %s", "CL %s",
			"CM %s 384", "CO %s 1000 1000", "CD %s"} {
			add(s, ks)
		}
		return out
	}
	offs := uniqInts([]int{-1, 0, 1, S - 1, S, S + 1, S + 7})
	if level == 1 {
		offs = uniqInts([]int{-1, 0, S - 1, S, S + 7})
	}
	for _, n := range uniqInts([]int{0, 1, S + 7}) {
		add("R %s %d", ks, n)
	}
	for _, n := range []int{0, 2} {
		for _, off := range offs {
			add("RA %s %d %d", ks, n, off)
		}
	}
	add("W %s s", ks)
	add("W %s s7879", ks)
	if level == 2 {
		add("WS %s s7a", ks)
	}
	for _, d := range []string{"s", "s7879"} {
		for _, off := range offs {
			add("WA %s %s %d", ks, d, off)
		}
	}
	seeks := [][2]int{{-1, 0}, {0, 0}, {S + 7, 0}, {-1, 1}, {0, 1}, {1, 1}, {0, 2}, {-1, 2}, {7, 2}, {-(S + 1), 2}, {0, -1}, {0, 5}}
	if level == 2 {
		seeks = append(seeks, [2]int{1, 0}, [2]int{S, 0}, [2]int{-S, 2})
	}
	for _, s := range seeks {
		add("SK %s %d %d", ks, s[0], s[1])
	}
	for _, sz := range uniqInts([]int{-1, 0, S - 1, S, S + 1, S + 7}) {
		add("TR %s %d", ks, sz)
	}
	add("ST %s", ks)
	add("SY %s", ks)
	add("CL %s", ks)
	add("CM %s 384", ks)
	add("CO %s 1000 1000", ks)
	add("CD %s", ks)
	return out
}

func pathOps(S, level int) []string {
	a, b := tok("a"), tok("b")
	out := []string{"PRN " + a + " " + b, "PRN " + b + " " + a, "PLN " + a + " " + b, "PRM " + a, "PRM " + b}
	for _, sz := range uniqInts([]int{-1, 0, S - 1, S + 1, S + 7}) {
		out = append(out, fmt.Sprintf("PT %s %d", a, sz))
	}
	if level == 2 {
		out = append(out, "PLN "+b+" "+a, "PRN "+a+" "+a, fmt.Sprintf("PT %s 0", b))
	}
	return out
}

// ---- bounded-exhaustive exploration by states -----------------------------------------
// prefix: create "a" holding "hello" through a handle that is then closed (descriptor 0 stays in the
// history as a closed handle), then the configuration's opens.
var fioPrefix = []string{"OP " + tok("a") + " 66 420", "W 0 " + tok("hello"), "CL 0"}

type fioExplorer struct {
	o       *out
	budget  int
	emitted int
}

type fioRun struct {
	ops  []string
	outs []string
	key  string
	S    int
	nh   int
}

// runHistory executes a history on fresh worlds (no output)
func fioRunHistory(ops []string) fioRun {
	t := newFioTrio()
	defer t.cleanup()
	outs := make([]string, 0, len(ops))
	for _, op := range ops {
		outs = append(outs, t.step(op))
	}
	return fioRun{ops: ops, outs: outs, key: t.key(), S: t.refSize(), nh: len(t.osw.handles)}
}

func (e *fioExplorer) emitRun(r fioRun, distinct bool) {
	for _, op := range r.ops {
		e.o.count("op:" + strings.Fields(op)[0])
	}
	key := ""
	if distinct {
		key = strings.Fields(r.ops[len(r.ops)-1])[0] + "/" + r.outs[len(r.outs)-1]
	}
	e.o.emit("file | "+strings.Join(r.ops, " | "), strings.Join(r.outs, " | "), key)
	e.emitted++
}

// explore: every (state reachable in < depth calls, call) pair, states identified by what the operating system
// and MemFS show (content through every name and descriptor, offsets)
func (e *fioExplorer) explore(config []string, depth, level int) {
	type node struct {
		ops []string
		S   int
		nh  int
	}
	base := append(append([]string{}, fioPrefix...), config...)
	r0 := fioRunHistory(base)
	seen := map[string]bool{r0.key: true}
	frontier := []node{{ops: base, S: r0.S, nh: r0.nh}}
	for d := 0; d < depth && len(frontier) > 0; d++ {
		var jobs [][]string
		for _, nd := range frontier {
			var alpha []string
			for k := 0; k < nd.nh; k++ {
				lv := level
				if k == 0 {
					lv = 0
				}
				alpha = append(alpha, handleOps(k, nd.S, lv)...)
			}
			alpha = append(alpha, pathOps(nd.S, level)...)
			for _, op := range alpha {
				jobs = append(jobs, append(append([]string{}, nd.ops...), op))
			}
		}
		if e.budget > 0 && e.emitted+len(jobs) > e.budget {
			n := e.budget - e.emitted
			if n < 0 {
				n = 0
			}
			jobs = jobs[:n]
		}
		runs := parallelMap(len(jobs), func(i int) fioRun { return fioRunHistory(jobs[i]) })
		var next []node
		for _, r := range runs {
			e.emitRun(r, true)
			if !seen[r.key] {
				seen[r.key] = true
				next = append(next, node{ops: r.ops, S: r.S, nh: r.nh})
			}
		}
		e.o.extra[fmt.Sprintf("states_depth_%d", d+1)] = len(next)
		frontier = next
	}
}

// ---- random histories -------------------------------------------------------------------
// fioRandomHistory: a random history.  avoid = true keeps away from the call shapes of the known findings
// (zero-length transfers, O_APPEND opens of a non-empty file, WriteAt on O_APPEND handles, argument errors on
// closed handles, dropping the last link of an open file) so that the comparison with os.File runs to the end
// of the history; what is a known finding is still decided by the extracted classifier, not here.
func fioRandomHistory(r *rng, steps int, avoid bool) fioRun {
	t := newFioTrio()
	defer t.cleanup()
	var ops, outs []string
	var flags []int // per descriptor
	var closed []bool
	do := func(op string) {
		ops = append(ops, op)
		outs = append(outs, t.step(op))
	}
	for _, op := range fioPrefix {
		do(op)
	}
	flags, closed = []int{66}, []bool{true}
	sizeOf := func(name string) int {
		if fi, err := os.Stat(t.osw.p(name)); err == nil {
			return int(fi.Size())
		}
		return 0
	}
	lastLink := func(name string) bool {
		fi, err := os.Stat(t.osw.p(name))
		return err == nil && fi.Sys().(*syscall.Stat_t).Nlink == 1
	}
	for len(ops) < steps {
		S := t.refSize()
		nh := len(t.osw.handles)
		open := 0
		for _, c := range closed {
			if !c {
				open++
			}
		}
		switch k := r.intn(20); {
		case (k < 3 || open == 0) && open < 3 && nh < 8:
			name := r.pick(fioNames)
			fl := fioOpenFlags[r.intn(len(fioOpenFlags))]
			if avoid && fl&os.O_APPEND != 0 && fl&os.O_TRUNC == 0 && sizeOf(name) > 0 {
				fl |= os.O_TRUNC
			}
			do(fmt.Sprintf("OP %s %d 420", tok(name), fl))
			if len(t.osw.handles) > nh {
				flags = append(flags, fl)
				closed = append(closed, false)
			}
		case k < 6:
			po := pathOps(S, 2)
			op := po[r.intn(len(po))]
			if avoid {
				f := strings.Fields(op)
				switch f[0] {
				case "PRM":
					if lastLink(untok(f[1])) {
						continue
					}
				case "PRN":
					if lastLink(untok(f[2])) || f[1] == f[2] {
						continue
					}
				case "PT":
					if atoi(f[2]) < 0 {
						continue
					}
				}
			}
			do(op)
		default:
			h := r.intn(nh)
			ho := handleOps(h, S, 2)
			op := ho[r.intn(len(ho))]
			f := strings.Fields(op)
			if f[0] == "CL" && r.chance(2, 3) {
				op = "ST " + strconv.Itoa(h) // closes are kept rare: a closed handle stays closed
			}
			if avoid {
				zero := (f[0] == "R" || f[0] == "RA") && f[2] == "0" || (f[0] == "W" || f[0] == "WA" || f[0] == "WS") && f[2] == "s"
				app := f[0] == "WA" && flags[h]&os.O_APPEND != 0
				clo := closed[h] && (f[0] == "TR" && atoi(f[2]) < 0 || f[0] == "RA" && atoi(f[3]) < 0)
				if zero || app || clo {
					continue
				}
			}
			do(op)
			if f[0] == "CL" && strings.HasPrefix(op, "CL") {
				closed[h] = true
			}
		}
	}
	return fioRun{ops: ops, outs: outs}
}

// ---- directory handles ----------------------------------------------------------------------
type dirWorld struct {
	w    *fioWorld
	acc  [][]string
	base string
}

func (d *dirWorld) setup(names []string) {
	d.base = d.w.dir + "/d"
	if d.w.vfs != nil {
		if err := d.w.vfs.Mkdir(d.base, 0o755); err != nil {
			panic(err)
		}
		for _, n := range names {
			if err := d.w.vfs.WriteFile(d.base+"/"+n, nil, 0o644); err != nil {
				panic(err)
			}
		}
		return
	}
	if err := os.Mkdir(d.base, 0o755); err != nil {
		panic(err)
	}
	for _, n := range names {
		if err := os.WriteFile(d.base+"/"+n, nil, 0o644); err != nil {
			panic(err)
		}
	}
}

func dirCanon(acc *[]string, n int, names []string, err error) string {
	for _, x := range names {
		*acc = append(*acc, tok(x))
	}
	s := fmt.Sprintf("NS#%d:%s", len(names), fioKind(err))
	if err == io.EOF || n <= 0 {
		all := append([]string{}, *acc...)
		sort.Strings(all)
		*acc = nil
		s += ":all=" + strings.Join(all, ",")
	}
	return s
}

// apply returns the exact and the order-independent rendering
func (d *dirWorld) apply(t []string) (string, string) {
	if t[0] == "DOP" {
		var f avfs.File
		var err error
		if d.w.vfs != nil {
			f, err = d.w.vfs.OpenFile(d.base, os.O_RDONLY, 0)
		} else {
			var of *os.File
			of, err = os.OpenFile(d.base, os.O_RDONLY, 0)
			f = of
		}
		if err != nil {
			s := "E:" + fioKind(err)
			return s, s
		}
		d.w.handles = append(d.w.handles, f)
		d.acc = append(d.acc, nil)
		s := fmt.Sprintf("H:%d", len(d.w.handles)-1)
		return s, s
	}
	same := func(s string) (string, string) { return s, s }
	switch t[0] {
	case "DMK": // create an entry of the directory through the path API
		p := d.base + "/" + untok(t[1])
		if d.w.vfs != nil {
			return same(fioErr(d.w.vfs.WriteFile(p, nil, 0o644)))
		}
		return same(fioErr(os.WriteFile(p, nil, 0o644)))
	case "DRM": // remove an entry through the path API
		p := d.base + "/" + untok(t[1])
		if d.w.vfs != nil {
			return same(fioErr(d.w.vfs.Remove(p)))
		}
		return same(fioErr(os.Remove(p)))
	}
	h := atoi(t[1])
	if h < 0 || h >= len(d.w.handles) {
		return "BADINDEX", "BADINDEX"
	}
	f := d.w.handles[h]
	switch t[0] {
	case "DRD", "DRN":
		n := atoi(t[2])
		var names []string
		var err error
		if t[0] == "DRD" {
			var des []fs.DirEntry
			des, err = f.ReadDir(n)
			for _, de := range des {
				names = append(names, de.Name())
			}
		} else {
			names, err = f.Readdirnames(n)
		}
		if err != nil && err != io.EOF {
			return same("E:" + fioKind(err))
		}
		ts := make([]string, len(names))
		for i, x := range names {
			ts[i] = tok(x)
		}
		return fmt.Sprintf("NS:%s:%s", strings.Join(ts, ","), fioKind(err)), dirCanon(&d.acc[h], n, names, err)
	case "DSK":
		d.acc[h] = nil
		k, err := f.Seek(0, io.SeekStart)
		if err != nil {
			return same("E:" + fioKind(err))
		}
		return same(fmt.Sprintf("N:%d", k))
	case "DR":
		b := make([]byte, atoi(t[2]))
		k, err := f.Read(b)
		if err != nil && err != io.EOF {
			return same("E:" + fioKind(err))
		}
		return same(fmt.Sprintf("B:%d:s:%s", k, fioKind(err)))
	case "DCL":
		return same(fioErr(f.Close()))
	}
	return "BADOP", "BADOP"
}

func runDirHistory(names []string, ops []string) []string {
	t := newFioTrio()
	defer t.cleanup()
	ws := []*dirWorld{{w: t.mem}, {w: t.ore}, {w: t.osw}}
	for _, w := range ws {
		w.setup(names)
	}
	// A handle that has read and has not been rewound when the directory changes is "dirty": what os.File shows of
	// the change is unspecified until its next Seek(0,0); its reads are rendered "?" in the os.File column (the
	// specification driver does the same), the implementations are still compared with their model.
	var started, dirty, closed []bool
	var outs []string
	for _, op := range ops {
		tk := strings.Fields(op)
		unspecified := false
		switch tk[0] {
		case "DOP":
			started, dirty, closed = append(started, false), append(dirty, false), append(closed, false)
		case "DMK", "DRM":
			for h := range started {
				if started[h] {
					dirty[h] = true
				}
			}
		default:
			if h := atoi(tk[1]); h >= 0 && h < len(started) {
				isread := tk[0] == "DRD" || tk[0] == "DRN"
				if tk[0] == "DSK" && !closed[h] {
					started[h], dirty[h] = false, false
				}
				unspecified = isread && dirty[h]
				if isread && !closed[h] {
					started[h] = true
				}
				if tk[0] == "DCL" {
					closed[h] = true
				}
			}
		}
		var ex, cn [3]string
		for i, w := range ws {
			w := w
			func() {
				defer func() {
					if r := recover(); r != nil {
						ex[i], cn[i] = "PANIC", "PANIC"
					}
				}()
				ex[i], cn[i] = w.apply(tk)
			}()
		}
		if unspecified {
			cn[2] = "?"
		}
		outs = append(outs, fmt.Sprintf("m:%s o:%s s:%s cm:%s co:%s", ex[0], ex[1], cn[2], cn[0], cn[1]))
	}
	return outs
}

func dirHeader(names []string) string {
	if len(names) == 0 {
		return "dir -"
	}
	ts := make([]string, len(names))
	for i, n := range names {
		ts[i] = tok(n)
	}
	return "dir " + strings.Join(ts, ",")
}

func dirAlphabet(h, k int) []string {
	hs := strconv.Itoa(h)
	var out []string
	for _, n := range uniqInts([]int{-1, 0, 1, 2, k, k + 1}) {
		out = append(out, fmt.Sprintf("DRD %s %d", hs, n), fmt.Sprintf("DRN %s %d", hs, n))
	}
	return append(out, "DSK "+hs, "DR "+hs+" 0", "DR "+hs+" 1", "DCL "+hs)
}

type dirRun struct {
	names, ops, outs []string
}

func (e *fioExplorer) emitDirs(names []string, histories [][]string) {
	runs := parallelMap(len(histories), func(i int) dirRun {
		return dirRun{names: names, ops: histories[i], outs: runDirHistory(names, histories[i])}
	})
	for _, r := range runs {
		for _, op := range r.ops {
			e.o.count("op:" + strings.Fields(op)[0])
		}
		e.o.emit(dirHeader(r.names)+" | "+strings.Join(r.ops, " | "), strings.Join(r.outs, " | "),
			"dir/"+strings.Join(r.ops[1:], "|")+r.outs[len(r.outs)-1])
		e.emitted++
	}
}

// every history of `depth` calls on nh directory handles
// the directory changes through the path API: a new entry, and the removal of an entry ("x" is in every non-empty listing)
var dirChanges = []string{"DMK " + tok("w"), "DRM " + tok("x")}

// exploreDirChange: every history "read ; change ; [rewind] ; read" on one handle - the listing a handle reads is the
// directory's content at its first read after open or rewind
func (e *fioExplorer) exploreDirChange(names []string) {
	var reads []string
	for _, n := range uniqInts([]int{-1, 0, 1, 2, len(names), len(names) + 1}) {
		reads = append(reads, fmt.Sprintf("DRD 0 %d", n), fmt.Sprintf("DRN 0 %d", n))
	}
	var all [][]string
	for _, r1 := range reads {
		for _, c := range dirChanges {
			for _, r2 := range reads {
				all = append(all, []string{"DOP", r1, c, "DSK 0", r2, r2}, []string{"DOP", r1, c, r2, "DSK 0", r2})
			}
		}
	}
	e.emitDirs(names, all)
}

func (e *fioExplorer) exploreDir(names []string, nh, depth int) {
	var alpha []string
	for h := 0; h < nh; h++ {
		alpha = append(alpha, dirAlphabet(h, len(names))...)
	}
	alpha = append(alpha, dirChanges...)
	base := []string{}
	for h := 0; h < nh; h++ {
		base = append(base, "DOP")
	}
	var all [][]string
	var rec func(ops []string, d int)
	rec = func(ops []string, d int) {
		if d == 0 {
			all = append(all, ops)
			return
		}
		for _, a := range alpha {
			rec(append(append([]string{}, ops...), a), d-1)
		}
	}
	rec(base, depth)
	e.emitDirs(names, all)
}

func randomDirOps(r *rng, names []string, steps int) []string {
	ops := []string{"DOP"}
	nh := 1
	for len(ops) < steps {
		if nh < 3 && r.chance(1, 12) {
			ops = append(ops, "DOP")
			nh++
			continue
		}
		if r.chance(1, 8) {
			// the directory changes; every handle is then rewound with probability 1/2, so that the comparison with
			// os.File goes on (a handle that is not rewound is compared with the model only)
			ops = append(ops, r.pick([]string{"DMK", "DRM"})+" "+tok(r.pick([]string{"w", "x", "y"})))
			for h := 0; h < nh; h++ {
				if r.chance(1, 2) {
					ops = append(ops, "DSK "+strconv.Itoa(h))
				}
			}
			continue
		}
		al := dirAlphabet(r.intn(nh), len(names))
		op := al[r.intn(len(al))]
		if strings.HasPrefix(op, "DCL") && r.chance(3, 4) {
			continue
		}
		ops = append(ops, op)
	}
	return ops
}

// ---- replay ----------------------------------------------------------------------------------
func fioReplayLine(l string) string {
	parts := strings.Split(l, " | ")
	hd := strings.Fields(parts[0])
	switch hd[0] {
	case "file":
		return strings.Join(runFileHistory(parts[1:]), " | ")
	case "dir":
		var names []string
		if len(hd) > 1 && hd[1] != "-" {
			for _, t := range strings.Split(hd[1], ",") {
				names = append(names, untok(t))
			}
		}
		return strings.Join(runDirHistory(names, parts[1:]), " | ")
	}
	return "BADLINE"
}

func runFileIO(cfg config) {
	o := newOut(cfg.dir, cfg.name)
	defer o.close(cfg.name)
	defer func() {
		if fioScratch != "" {
			os.RemoveAll(fioScratch)
		}
	}()
	syscall.Umask(0o22)
	avfs.SetUMask(0o22)
	if rl := cfg.replayLines(); rl != nil {
		for _, l := range rl {
			o.emit(l, fioReplayLine(l), "")
		}
		return
	}
	e := &fioExplorer{o: o}
	thorough := cfg.tier == "thorough"
	r := &rng{s: cfg.seed*104729 + 7}
	op := func(flag int) string { return fmt.Sprintf("OP %s %d 420", tok("a"), flag) }

	// (1) every flag combination, one handle: every (state, call) pair within depth 2 (quick) / 3 (thorough)
	d1 := 2
	if thorough {
		d1 = 3
	}
	for _, f := range fioOpenFlags {
		e.explore([]string{op(f)}, d1, 1)
	}
	// (2) selected configurations at depth 3 (quick) / 4 (thorough)
	cfgs := [][]string{{op(os.O_RDWR)}, {op(os.O_WRONLY | os.O_APPEND), op(os.O_RDWR)}}
	if thorough {
		cfgs = append(cfgs, []string{op(os.O_RDONLY), op(os.O_WRONLY)}, []string{op(os.O_RDWR | os.O_APPEND), op(os.O_WRONLY | os.O_APPEND)},
			[]string{op(os.O_RDWR), op(os.O_RDWR), op(os.O_RDONLY)})
	}
	d2, b2 := 3, 12000
	if thorough {
		d2, b2 = 4, 150000
	}
	for _, c := range cfgs {
		e.budget = e.emitted + b2
		e.explore(c, d2, 1)
	}
	e.budget = 0
	// (3) pairs of flag combinations, depth 1 with the full alphabet (thorough: depth 2)
	np := 40
	if thorough {
		np = 400
	}
	for i := 0; i < np; i++ {
		d := 1
		if thorough {
			d = 2
		}
		e.explore([]string{op(fioOpenFlags[r.intn(len(fioOpenFlags))]), op(fioOpenFlags[r.intn(len(fioOpenFlags))])}, d, 2)
	}
	// (4) random long histories
	nr := 40
	if thorough {
		nr = 600
	}
	rruns := parallelMap(nr, func(i int) fioRun {
		return fioRandomHistory(&rng{s: cfg.seed*104729 + 7 + uint64(i+1)*7919}, 300, i%4 != 0)
	})
	for _, rr := range rruns {
		e.emitRun(rr, false)
	}
	o.extra["file_histories"] = e.emitted
	// (5) directory handles
	dirs := [][]string{{}, {"x"}, {"x", "y", "z"}}
	nfile := e.emitted
	for _, names := range dirs {
		if thorough {
			e.exploreDir(names, 1, 4)
			e.exploreDir(names, 2, 3)
		} else {
			e.exploreDir(names, 1, 3)
			e.exploreDir(names, 2, 2)
		}
		e.exploreDirChange(names)
		nrd := 30
		if thorough {
			nrd = 300
		}
		var rd [][]string
		for i := 0; i < nrd; i++ {
			rd = append(rd, randomDirOps(r, names, 60))
		}
		e.emitDirs(names, rd)
	}
	o.extra["dir_histories"] = e.emitted - nfile
	o.rule = "handle-operation histories on MemFS, OrefaFS and *os.File (fresh tmpfs directory): (1) every open-flag combination {O_RDONLY,O_WRONLY,O_RDWR} x subsets of {O_APPEND,O_TRUNC,O_CREATE,O_EXCL} with every (reachable state, call) pair to the stated depth, states identified by content/size/attributes through every name and descriptor plus offsets; (2) multi-handle configurations deeper; (3) random pairs of flag combinations, full alphabet; (4) random 300-step histories over <=3 open handles with re-opens and path-level Truncate/Rename/Link/Remove; offsets, lengths and sizes from {-1,0,1,S-1,S,S+1,S+7} around the current size S, whence from {0,1,2,-1,5}; (5) directory handles: every history of ReadDir/Readdirnames(n in {-1,0,1,2,k,k+1})/Seek(0,0)/Read/Close and of creating / removing an entry of the directory through the path API, to the stated depth, on directories of 0, 1 and 3 entries; every history read;change;[rewind];read;read; random ones (os.File is compared except on reads of a handle that has read and not been rewound since the directory changed: unspecified). After every step the content, size, link count and attributes seen through every name (Stat, ReadFile) and every descriptor (Stat, ReadAt) are compared as well."
}

// ---- the O projection (implementation versus os.File), used to shrink and replay deviations -------------
func fioFields(step string) map[string]string {
	m := map[string]string{}
	for _, f := range strings.Fields(step) {
		if i := strings.IndexByte(f, ':'); i > 0 {
			m[f[:i]] = f[i+1:]
		}
	}
	return m
}

func fioProjDev(r, rs, v, vs string) string {
	if rs == "?" { // unspecified for os.File: not compared
		return "eq"
	}
	if r != rs {
		return fmt.Sprintf("DEV:r:%s/%s", r, rs)
	}
	if v != vs {
		return fmt.Sprintf("DEV:v:%s/%s", v, vs)
	}
	return "eq"
}

func fioProject(isDir bool, observed string) string {
	steps := strings.Split(observed, " | ")
	out := make([]string, len(steps))
	for i, st := range steps {
		f := fioFields(st)
		if isDir {
			out[i] = fmt.Sprintf("m=%s o=%s", fioProjDev(f["cm"], f["s"], "", ""), fioProjDev(f["co"], f["s"], "", ""))
		} else {
			out[i] = fmt.Sprintf("m=%s o=%s", fioProjDev(f["m"], f["s"], f["vm"], f["vs"]), fioProjDev(f["o"], f["s"], f["vo"], f["vs"]))
		}
	}
	return strings.Join(out, " | ")
}

// runFileIOProj: replay only. observed line = per step "m=eq|DEV.. o=eq|DEV.." ; the driver command
// fileio-o prints "eq" up to the first classified step and the models' own projection afterwards.
func runFileIOProj(cfg config) {
	o := newOut(cfg.dir, cfg.name)
	defer o.close(cfg.name)
	defer func() {
		if fioScratch != "" {
			os.RemoveAll(fioScratch)
		}
	}()
	syscall.Umask(0o22)
	avfs.SetUMask(0o22)
	for _, l := range cfg.replayLines() {
		o.emit(l, fioProject(strings.HasPrefix(l, "dir"), fioReplayLine(l)), "")
	}
}
