package main

// Property C17, the pairwise behavioural check: the SAME portable history (paths given as lists of component
// names, spelled for each file system with its own vfs.Join(root, components...)) is run on
//   memfs/linux, memfs/windows, orefafs/linux, orefafs/windows  (four consecutive lines of <name>.cases / .observed,
//   each also compared with the Coq model of its file system)
// in the line syntax of the `ostype` stream with snapshot mode `norm`; bin/check compares the lines of one
// history pairwise (success/failure of every call and the normalised tree after it).
// Two generators: a breadth-first search over distinct tree states with every template call in each state,
// and long random state-aware histories.
// A third command, `ostypevol`, enumerates every sequence of volume calls up to a depth over three volume names.

import (
	"fmt"
	"io/fs"
	"os"
	"sort"
	"strings"

	"github.com/avfs/avfs"
)

func init() {
	commands["ostypepair"] = runOSTypePair
	commands["ostypevol"] = runOSTypeVol
}

var pairConfigs = [][2]string{{"memfs", "linux"}, {"memfs", "windows"}, {"orefafs", "linux"}, {"orefafs", "windows"}}

// portable path operand: "c:" + components joined by "."   (c: alone is the root)
func compsOf(t string) []string {
	s := strings.TrimPrefix(t, "c:")
	if s == "" {
		return nil
	}
	return strings.Split(s, ".")
}

func rootOf(osname string) string {
	if osname == "windows" {
		return avfs.DefaultVolume + `\`
	}
	return "/"
}

// the system directory every configuration is built with (Options.SystemDirs): <root>tmp, 0777
func pairDirs(osname string) []avfs.DirInfo {
	return []avfs.DirInfo{{Path: rootOf(osname) + "tmp", Perm: 0o777}}
}

// instantiate a template op for a file system: every "c:..." operand becomes Join(root, components...)
func instantiate(v avfs.VFS, osname, op string) string {
	t := strings.Fields(op)
	out := []string{t[0], "0"}
	for _, a := range t[1:] {
		if strings.HasPrefix(a, "c:") {
			out = append(out, tok(avfs.Join(v, append([]string{rootOf(osname)}, compsOf(a)...)...)))
		} else {
			out = append(out, a)
		}
	}
	return strings.Join(out, " ")
}

// a portable history on one configuration: returns the case line and the observed line
func runPairConfig(fsname, osname string, um int, ops []string, skip bool) (string, string) {
	dirs := pairDirs(osname)
	hdr := fmt.Sprintf("%s %s %d norm %s", fsname, osname, um, showDirs(dirs))
	w := newOSWorld(fsname, osname, um, dirs)
	if len(w.views) == 0 {
		return hdr, "NOTYPE"
	}
	var cops []string
	for _, op := range ops {
		cops = append(cops, instantiate(w.base, osname, op))
	}
	line := hdr
	if len(cops) > 0 {
		line += " | " + strings.Join(cops, " | ")
	}
	if skip {
		return line, "SKIPPED"
	}
	return line, runOSHistory(line)
}

// ---- templates ------------------------------------------------------------------------------------------
var pairNames = []string{"a", "b"}

type pent struct {
	comps string // "c:a.b"
	kind  byte
}

// entries of the reference world (memfs/linux) as portable paths
func pairEntries(w *osWorld) []pent {
	var es []pent
	for _, e := range w.snapshotEntriesO() {
		if e.kind == '!' {
			continue
		}
		p := strings.Trim(w.normPath(e.path), "/")
		es = append(es, pent{comps: "c:" + strings.ReplaceAll(p, "/", "."), kind: e.kind})
	}
	return es
}

func child(p, n string) string {
	if p == "c:" {
		return "c:" + n
	}
	return p + "." + n
}

func pairCandidates(es []pent) (all, existing, files []string) {
	seen := map[string]bool{}
	add := func(p string) {
		if !seen[p] {
			seen[p] = true
			all = append(all, p)
		}
	}
	for _, e := range es {
		existing = append(existing, e.comps)
		add(e.comps)
		switch e.kind {
		case 'D':
			for _, n := range pairNames {
				add(child(e.comps, n))
			}
		case 'F':
			files = append(files, e.comps)
			add(child(e.comps, "a"))
		case 'L':
			add(child(e.comps, "a"))
		}
	}
	add("c:x.y")
	return
}

// every template call in a state
func pairCalls(es []pent) []string {
	all, existing, files := pairCandidates(es)
	var cs []string
	for _, p := range all {
		cs = append(cs,
			"MK "+p+" 493", "MA "+p+" 448",
			fmt.Sprintf("OP %s %d 420", p, os.O_RDONLY),
			fmt.Sprintf("OP %s %d 420", p, os.O_CREATE|os.O_RDWR),
			fmt.Sprintf("OP %s %d 384", p, os.O_CREATE|os.O_EXCL|os.O_WRONLY),
			fmt.Sprintf("OP %s %d 420", p, os.O_TRUNC|os.O_WRONLY),
			"WF "+p+" "+tok("xy")+" 420",
			"RM "+p, "RA "+p, "RL "+p, "TR "+p+" 1", "TR "+p+" -1", "CM "+p+" 448", "CO "+p+" 1000 1000", "LC "+p+" -1 1001",
			"CT "+p, "CD "+p, "ST "+p, "LS "+p, "ES "+p, "RD "+p, "RF "+p)
		for _, tg := range []string{"c:", "c:a", "c:tmp", "c:b.a"} {
			cs = append(cs, "SL "+tg+" "+p)
		}
	}
	for _, o := range existing {
		for _, n := range all {
			cs = append(cs, "RN "+o+" "+n)
		}
	}
	for _, o := range append(append([]string{}, files...), "c:tmp", "c:x") {
		for _, n := range all {
			cs = append(cs, "LN "+o+" "+n)
		}
	}
	cs = append(cs, "WD", "UM 63")
	sort.Strings(cs)
	return cs
}

type pairOut struct {
	o         *out
	nOrefa    int
	deadlocks int
}

func newPairOut(cfg config) *pairOut {
	p := &pairOut{o: newOut(cfg.dir, cfg.name)}
	return p
}

func (p *pairOut) close(name string) {
	p.o.close(name)
}

// run one portable history on the four configurations; returns the observed line of memfs/linux
func (p *pairOut) history(um int, ops []string, key string) string {
	var ref string
	for _, c := range pairConfigs {
		line, obs := runPairConfig(c[0], c[1], um, ops, c[0] != "memfs" && p.deadlocks >= 8)
		if c[0] != "memfs" {
			if p.deadlocks >= 8 {
				// an OrefaFS that hangs (every hang costs the 3 s detection delay) is not explored further
				obs = "SKIPPED"
			} else if strings.HasSuffix(obs, "DEADLOCK #-") || strings.HasSuffix(obs, "DEADLOCK") {
				p.deadlocks++
			}
			p.nOrefa++
		}
		p.o.emit(line, obs, key+"/"+c[0]+c[1])
		if c[0] == "memfs" && c[1] == "linux" {
			ref = obs
		}
	}
	return ref
}

func lastRes(obs string) string {
	parts := strings.Split(obs, " | ")
	return parts[len(parts)-1]
}

func runOSTypePair(cfg config) {
	p := newPairOut(cfg)
	defer p.close(cfg.name)
	o := p.o
	if rl := cfg.replayLines(); rl != nil {
		for _, l := range rl {
			l2 := l
			parts := strings.SplitN(l, " | ", 2)
			hd := strings.Fields(parts[0])
			if len(hd) >= 4 && os.Getenv("VERIF_FS_FULLSNAP") == "1" && hd[3] == "norm" {
				hd[3] = "normfull"
				l2 = strings.Join(hd, " ")
				if len(parts) == 2 {
					l2 += " | " + parts[1]
				}
			}
			o.emit(l2, runOSHistory(l2), "")
		}
		return
	}
	const um = 18
	// ---- breadth-first search over distinct tree states ------------------------------------------------
	depth, maxStates := 2, 40
	nh, hl := 150, 30
	if cfg.tier == "thorough" {
		depth, maxStates = 3, 700
		nh, hl = 1500, 60
	}
	type st struct{ ops []string }
	frontier := []st{{}}
	seen := map[string]bool{}
	pairs, states := 0, 1
	for d := 0; d < depth; d++ {
		var next []st
		for _, s := range frontier {
			ref := newOSWorld("memfs", "linux", um, pairDirs("linux"))
			for _, op := range s.ops {
				ref.applyGuardedO(strings.Fields(instantiate(ref.base, "linux", op)))
			}
			if d == 0 {
				seen[ref.showSnapO("md5", ref.snapshotEntriesO())] = true
			}
			for _, c := range pairCalls(pairEntries(ref)) {
				ops := append(append([]string{}, s.ops...), c)
				obs := p.history(um, ops, opKind(c)+"/"+"")
				last := lastRes(obs)
				o.count("op:" + opKind(c))
				o.count("res:" + resKind(last))
				o.distinct[opKind(c)+"/"+last] = struct{}{}
				pairs++
				if d+1 < depth && !strings.HasPrefix(last, "PANIC") && !strings.HasPrefix(last, "DEADLOCK") && !strings.HasPrefix(c, "OP ") {
					if i := strings.Index(last, " #"); i >= 0 {
						dg := last[i:]
						if !seen[dg] && states < maxStates {
							seen[dg] = true
							states++
							next = append(next, st{ops: ops})
						}
					}
				}
			}
		}
		frontier = next
	}
	// ---- long random state-aware histories ------------------------------------------------------------------
	r := &rng{s: cfg.seed*15485863 + 3}
	calls := 0
	for i := 0; i < nh; i++ {
		ref := newOSWorld("memfs", "linux", um, pairDirs("linux"))
		var ops []string
		for j := 0; j < hl; j++ {
			cs := pairCalls(pairEntries(ref))
			// bias towards calls that change the tree
			var c string
			for k := 0; k < 4; k++ {
				c = cs[r.intn(len(cs))]
				if strings.HasPrefix(c, "MK ") || strings.HasPrefix(c, "WF ") || strings.HasPrefix(c, "SL ") || strings.HasPrefix(c, "RN ") ||
					strings.HasPrefix(c, "LN ") || strings.HasPrefix(c, "MA ") || strings.HasPrefix(c, "RM ") {
					break
				}
			}
			if strings.HasPrefix(c, "OP ") {
				c = "RD " + strings.Fields(c)[1] // no handle is kept in the random histories
			}
			res := ref.applyGuardedO(strings.Fields(instantiate(ref.base, "linux", c)))
			ops = append(ops, c)
			o.count("op:" + opKind(c))
			o.count("res:" + resKind(res))
			if res == "DEADLOCK" || res == "PANIC" {
				break
			}
		}
		calls += len(ops)
		p.history(um, ops, "")
	}
	o.rule = fmt.Sprintf("portable histories (paths = lists of component names over {a,b,tmp,x,y}, spelled per file system by vfs.Join(root, components...); file systems built with Options{OSType, SystemDirs: [<root>tmp 0777]}, umask 022): (i) breadth-first search to depth %d over distinct tree states (at most %d) with EVERY template call in each state (22 single-path calls x every candidate path [existing, child a/b of every directory, below a file or symlink, missing parent], 4 portable symlink targets, Rename existing x candidate, Link file x candidate, Getwd, SetUMask): %d (state, call) pairs over %d states; (ii) %d random state-aware histories of up to %d calls (%d calls). Each history runs on memfs/linux, memfs/windows (both compared with the Coq model, results and exact + normalised snapshots) and orefafs/linux, orefafs/windows; the two OS types of each file system are compared call by call on success/failure and on the normalised tree", depth, maxStates, pairs, states, nh, hl, calls)
	o.extra["evaluations"] = (pairs + nh) * 4
	o.extra["portable_histories"] = pairs + nh
	o.extra["bfs_pairs"] = pairs
	o.extra["bfs_states"] = states
	o.extra["random_calls"] = calls
	o.extra["orefa_lines"] = p.nOrefa
	o.extra["orefa_deadlocks_before_skipping"] = p.deadlocks
	o.extra["exhaustive_within_bounds"] = true
}

// ---- volume call sequences ---------------------------------------------------------------------------------------
// every sequence of volume calls up to a depth over three volume names, each followed by VolumeList and a probe
// Mkdir / Stat on every volume; memfs/windows and memfs/linux (where every call must answer ErrVolumeWindows)
func runOSTypeVol(cfg config) {
	o := newOut(cfg.dir, cfg.name)
	defer o.close(cfg.name)
	if rl := cfg.replayLines(); rl != nil {
		for _, l := range rl {
			o.emit(l, runOSHistory(l), "")
		}
		return
	}
	vols := []string{"C:", "D:", "E:"}
	var basic []string
	for _, v := range vols {
		basic = append(basic, "VA 0 "+tok(v), "VD 0 "+tok(v))
	}
	full := append(append([]string{}, basic...), "VA 0 "+tok(`D:\dir\x`), "VA 0 "+tok("nocolon"), "VD 0 "+tok(""), "MK 0 "+tok(`D:\d`)+" 493", "WF 0 "+tok(`E:\f`)+" "+tok("x")+" 420")
	probe := []string{"VL 0"}
	for _, v := range vols {
		probe = append(probe, "ST 0 "+tok(v+`\`))
	}
	n := 0
	done := map[string]bool{}
	var rec func(alphabet []string, depth int, seq []string, d int)
	rec = func(alphabet []string, depth int, seq []string, d int) {
		if len(seq) > 0 && !done[strings.Join(seq, "|")] {
			done[strings.Join(seq, "|")] = true
			for _, osname := range []string{"windows", "linux"} {
				if osname == "linux" && len(seq) > 2 {
					continue
				}
				line := fmt.Sprintf("memfs %s 18 md5 | %s | %s", osname, strings.Join(seq, " | "), strings.Join(probe, " | "))
				obs := runOSHistory(line)
				o.emit(line, obs, obs)
				n++
			}
		}
		if d == depth {
			return
		}
		for _, a := range alphabet {
			rec(alphabet, depth, append(append([]string{}, seq...), a), d+1)
		}
	}
	depth := 4
	rec(basic, depth, nil, 0)
	fdepth := 3
	if cfg.tier == "thorough" {
		fdepth = 4
	}
	rec(full, fdepth, nil, 0)
	alphabet := full
	o.rule = fmt.Sprintf("EVERY sequence of 1..%d calls over {VolumeAdd, VolumeDelete} x {C:, D:, E:}, and every sequence of 1..%d calls over that alphabet extended with VolumeAdd of a path with a volume, VolumeAdd of a name without volume, VolumeDelete(\"\"), Mkdir and WriteFile on the second and third volume (%d letters), each followed by VolumeList and Stat of the three volume roots, on a Windows-typed MemFS and (sequences up to length 2) on a Linux-typed one: %d histories; results, error numbers and the snapshot of every volume compared with the Coq model", depth, fdepth, len(alphabet), n)
	o.extra["evaluations"] = n
	o.extra["exhaustive_within_bounds"] = true
	var _ fs.FileMode
}
