package main

// The Sub-view stream (property C11): histories interleaving calls on a parent MemFS and on views
// obtained with Sub (nested views and views of "/" included), with per-view SetUser / SetUMask /
// Chdir mixed in.  Every history is executed on MemFS built from /repo (instance A) and, by
// ml/drv_subview.ml, on the extracted Coq world model; in addition the harness checks on the
// implementation itself:
//
//	T  twin run        the call c(p) through a view rooted at directory D on instance A and the call
//	                   c(D+abs(p)) through the root of a twin instance B give the same outcome and leave
//	                   the same tree (symlink-free histories, header "twin")
//	C  confinement     secret entries planted at the top of the tree are never listed, read or modified by
//	                   a call through a view that is not rooted at "/", whatever the path
//	I  isolation       user, umask and current directory of every live view after every call (compared
//	                   with the model: a setter on one view must not change another's)
//	F  frame           the same without the model: after a call, every view other than the acting one has
//	                   the user, umask and cwd it had before; the acting view changed at most the field the
//	                   call sets (SetUser: user, SetUMask: umask, Chdir / File.Chdir: cwd)
//
// case line:     sv <umask> <twin|links> | op | op ...      (view and handle operands are explicit ids;
//                                                           "SB v path newid", "OP v path flag perm newhid")
// observed line: <result> T=<ok|DIFF..> I=<id:uid:gid:admin:umask:cwd,...> C=<ok|LEAK..|MOD..> F=<ok|ISO..> #<digest> | ...
// The model prints T=ok, C=ok and F=ok: a failed implementation-level check shows as a differing line.

import (
	"crypto/md5"
	"encoding/hex"
	"fmt"
	"io/fs"
	"os"
	"path"
	"sort"
	"strconv"
	"strings"

	"github.com/avfs/avfs"
	"github.com/avfs/avfs/vfs/memfs"
)

func init() { commands["subview"] = runSubview }

const svMarker = "TOPSECRET"

var svSecretNameHex = hex.EncodeToString([]byte("SECRET"))

type svView struct {
	id       int
	vfs      avfs.VFS
	dir      string // path of the view's root in the base namespace (lexical; "" when detached)
	isRoot   bool   // the view's root is the root of the base
	detached bool   // the directory was removed after the view was made
	nested   int    // depth of nesting (0 = made from the parent)
}

type svStats struct {
	ops, twinCompared, twinViaSub, aOnly, twinLost, confChecked, attackOps int
	views, nestedViews, rootViews, detachedViews                          int
	setters, relOps, uncleanOps                                           int
}

type svWorld struct {
	twin     bool
	a, b     avfs.VFS // administrator's handles on instance A and on the twin B (never used by a generated call)
	pb       avfs.VFS // B's acting view of "/"
	views    map[int]*svView
	order    []int
	handles  map[int]avfs.File
	hview    map[int]int
	twinLost bool
	snapA    []snapEntry
	st       *svStats
}

func newSvWorld(umask int, twin bool, st *svStats) *svWorld {
	avfs.SetUMask(fs.FileMode(umask))
	a := memfs.New()
	v0, err := a.Sub("/")
	if err != nil {
		panic(err)
	}
	w := &svWorld{twin: twin, a: a, views: map[int]*svView{}, handles: map[int]avfs.File{}, hview: map[int]int{}, st: st}
	w.views[0] = &svView{id: 0, vfs: v0, dir: "/", isRoot: true}
	w.order = []int{0}
	if twin {
		w.b = memfs.New()
		w.pb, err = w.b.Sub("/")
		if err != nil {
			panic(err)
		}
	}
	w.snapA = (&fsWorld{base: a}).snapshotEntries()
	return w
}

// ---- paths ---------------------------------------------------------------------------------
func svJoinDir(d, va string) string {
	switch {
	case d == "/":
		return va
	case va == "/":
		return d
	}
	return d + va
}

// curDirOf: the current directory a view keeps (the field itself: Getwd also needs search permission on the directory)
func curDirOf(v avfs.VFS) string {
	if c, ok := v.(interface{ CurDir() string }); ok {
		return c.CurDir()
	}
	wd, _ := v.Getwd()
	return wd
}

// viewAbs: the absolute path, in the view's own namespace, that the view resolves p to (vfs.Abs)
func viewAbs(v avfs.VFS, p string) string {
	if path.IsAbs(p) {
		return path.Clean(p)
	}
	wd := curDirOf(v)
	return path.Join(wd, p)
}

func cleanAbs(p string) bool { return path.IsAbs(p) && path.Clean(p) == p && p != "/" }

// positions of the path operands of an op
func svPathPos(kind string) []int {
	switch kind {
	case "RN", "LN":
		return []int{2, 3}
	case "SL":
		return []int{3}
	case "MK", "MA", "OP", "RM", "RA", "RL", "TR", "CM", "CO", "LC", "CT", "ST", "LS", "ES", "RD", "RF", "WF", "CD", "SB":
		return []int{2}
	}
	return nil
}

// ---- permission of the acting user on the directories leading to the view's root -------------
func svCanSearch(base avfs.VFS, u avfs.UserReader, dir string) bool {
	if u.IsAdmin() {
		return true
	}
	// "/" itself, then every directory down to the view's root
	parts := []string{""}
	if dir != "/" {
		parts = strings.Split(dir, "/")
	}
	p := ""
	for k, c := range parts {
		if k == 0 {
			p = "/"
		} else if p == "/" {
			p += c
		} else {
			p += "/" + c
		}
		info, err := base.Lstat(p)
		if err != nil {
			return false
		}
		st := base.ToSysStat(info)
		m := uint32(info.Mode().Perm())
		switch {
		case st.Uid() == u.Uid():
			m >>= 6
		case st.Gid() == u.Gid():
			m >>= 3
		}
		if m&1 == 0 {
			return false
		}
	}
	return true
}

// ---- executing one op on one VFS / handle (reuses the fs stream's op table) --------------------
func svApply(v avfs.VFS, f avfs.File, t []string) (res string, nv avfs.VFS, nf avfs.File) {
	fw := &fsWorld{views: []avfs.VFS{v}}
	if f != nil {
		fw.handles = []avfs.File{f}
		fw.hview = []int{0}
	}
	tt := append([]string(nil), t...)
	tt[1] = "0"
	res = fw.applyGuarded(tt)
	if len(fw.views) > 1 {
		nv = fw.views[1]
	}
	if f == nil && len(fw.handles) > 0 {
		nf = fw.handles[0]
	}
	return
}

// the secrets that lie outside the directory of a view (all of them for a view on a removed directory)
func svOutside(v *svView, p string) bool {
	return v.detached || !(p == v.dir || strings.HasPrefix(p, v.dir+"/"))
}

func svSecretLines(es []snapEntry, v *svView) string {
	var sb strings.Builder
	for _, e := range es {
		if strings.HasPrefix(e.path, "/SECRET") && svOutside(v, e.path) {
			sb.WriteString(e.line)
			sb.WriteByte('\n')
		}
	}
	return sb.String()
}

// contents of the planted secret files, by path
var svSecretData = map[string]string{"/SECRET1": svMarker + "-1", "/SECRETD/f": svMarker + "-D"}

func svLeaks(v *svView, res string) bool {
	for p, d := range svSecretData {
		if svOutside(v, p) && strings.Contains(res, hex.EncodeToString([]byte(d))) {
			return true
		}
	}
	return false
}

func (w *svWorld) showViews() string {
	parts := make([]string, 0, len(w.order))
	for _, id := range w.order {
		v := w.views[id].vfs
		u := v.User()
		wd := curDirOf(v)
		ad := 0
		if u.IsAdmin() {
			ad = 1
		}
		parts = append(parts, fmt.Sprintf("%d:%d:%d:%d:%d:%s", id, u.Uid(), u.Gid(), ad, uint32(v.UMask()), tok(wd)))
	}
	return strings.Join(parts, ",")
}

type svState struct{ user, umask, cwd string }

func (w *svWorld) states() map[int]svState {
	m := map[int]svState{}
	for _, id := range w.order {
		v := w.views[id].vfs
		u := v.User()
		wd := curDirOf(v)
		m[id] = svState{fmt.Sprintf("%d:%d:%v", u.Uid(), u.Gid(), u.IsAdmin()), fmt.Sprint(uint32(v.UMask())), wd}
	}
	return m
}

// frame: which views changed which field between two states, given the one field the call may set
func svFrame(before, after map[int]svState, actor int, field string) string {
	var bad []string
	ids := make([]int, 0, len(before))
	for id := range before {
		ids = append(ids, id)
	}
	sort.Ints(ids)
	for _, id := range ids {
		b, a := before[id], after[id]
		if b.user != a.user && !(id == actor && field == "user") {
			bad = append(bad, fmt.Sprintf("view%d.user:%s>%s", id, b.user, a.user))
		}
		if b.umask != a.umask && !(id == actor && field == "umask") {
			bad = append(bad, fmt.Sprintf("view%d.umask:%s>%s", id, b.umask, a.umask))
		}
		if b.cwd != a.cwd && !(id == actor && field == "cwd") {
			bad = append(bad, fmt.Sprintf("view%d.cwd:%s>%s", id, tok(b.cwd), tok(a.cwd)))
		}
	}
	if len(bad) == 0 {
		return "ok"
	}
	return "ISO(" + strings.Join(bad, ";") + ")"
}

func notok(s string) string { return strings.ReplaceAll(s, " ", "_") }

// twinSame compares the result of the call through the view (A) with the result of the prefixed call
// through the twin's root (B); names and paths inside results are compared modulo the prefix.
func twinSame(kind string, pa, pb []string, resA, resB, dir string) bool {
	if resA == resB {
		return true
	}
	fa, fb := strings.Fields(resA), strings.Fields(resB)
	if len(fa) == 0 || len(fb) == 0 || fa[0] != fb[0] {
		return false
	}
	switch fa[0] {
	case "I": // the Name of a FileInfo is the base name of the path given: equal only for clean paths
		if len(pa) > 0 && cleanAbs(pa[0]) {
			return false
		}
		ia, ib := strings.SplitN(fa[1], ":", 2), strings.SplitN(fb[1], ":", 2)
		return len(ia) == 2 && len(ib) == 2 && ia[1] == ib[1]
	case "EP":
		if len(fa) != 3 || len(fb) != 3 || fa[1] != fb[1] {
			return false
		}
		xa, xb := untok(fa[2]), untok(fb[2])
		if len(pa) > 0 && xa == pa[0] && xb == pb[0] {
			return true
		}
		return xb == svJoinDir(dir, xa) || (xa == "/" && xb == dir)
	case "S":
		if len(fa) != 2 || len(fb) != 2 {
			return false
		}
		return untok(fb[1]) == svJoinDir(dir, untok(fa[1]))
	case "H", "V":
		return true
	}
	return false
}

// step executes one op of a history and returns the observed text for it; stop is true when the
// history cannot go on (panic, deadlock, interrupted RemoveAll).
func (w *svWorld) step(t []string) (out string, stop bool) {
	w.st.ops++
	kind := t[0]
	bad := func() (string, bool) {
		return "BADID T=ok I=" + w.showViews() + " C=ok F=ok #" + w.digest(), false
	}
	if kind[0] == 'f' { // handle call
		hid := atoi(t[1])
		f, ok := w.handles[hid]
		if !ok {
			return bad()
		}
		v := w.views[w.hview[hid]]
		before := w.states()
		res, _, _ := svApply(v.vfs, f, t)
		if res == "DEADLOCK" || res == "PANIC" {
			return res + " #-", true
		}
		field := ""
		if kind == "fCD" {
			field = "cwd"
		}
		return res + " T=ok I=" + w.showViews() + " C=ok F=" + svFrame(before, w.states(), v.id, field) + " #" + w.digest(), false
	}
	vi := atoi(t[1])
	v, ok := w.views[vi]
	if !ok {
		return bad()
	}
	tt := t
	newID := -1
	if kind == "SB" || kind == "OP" { // the last token is the id given to the new view / handle
		newID = atoi(t[len(t)-1])
		tt = t[:len(t)-1]
	}
	pos := svPathPos(kind)
	var ps, vas []string
	for _, i := range pos {
		p := untok(tt[i])
		ps = append(ps, p)
		vas = append(vas, viewAbs(v.vfs, p))
	}
	secretBefore := svSecretLines(w.snapA, v)
	user, umask := v.vfs.User(), v.vfs.UMask()
	searchOK := !v.detached && svCanSearch(w.a, user, v.dir)

	before := w.states()

	// ---- instance A
	resA, nv, nf := svApply(v.vfs, nil, tt)
	if resA == "DEADLOCK" || resA == "PANIC" {
		return resA + " #-", true
	}
	if raInterrupted(strings.Join(tt, " "), resA) {
		return resA + " #?", true
	}
	okA := !strings.HasPrefix(resA, "E")
	shown := resA
	switch {
	case kind == "SB" && nv != nil:
		va := vas[0]
		nw := &svView{id: newID, vfs: nv, nested: v.nested + 1, detached: v.detached}
		if vi == 0 {
			nw.nested = 0
		}
		if !v.detached {
			nw.dir = svJoinDir(v.dir, va)
			if !w.twin { // symbolic links may be on the way: ask the view where the path leads
				if r, err := v.vfs.EvalSymlinks(ps[0]); err == nil {
					nw.dir = svJoinDir(v.dir, r)
				}
			}
			nw.isRoot = nw.dir == "/"
		}
		if _, dup := w.views[newID]; dup {
			return "BADID-DUP #-", true
		}
		w.views[newID] = nw
		w.order = append(w.order, newID)
		w.st.views++
		if nw.nested > 0 {
			w.st.nestedViews++
		}
		if nw.isRoot {
			w.st.rootViews++
		}
		shown = fmt.Sprintf("V %d", newID)
	case kind == "OP" && nf != nil:
		w.handles[newID] = nf
		w.hview[newID] = vi
		shown = fmt.Sprintf("H %d", newID)
	}
	if kind == "SU" || kind == "UM" || kind == "CD" {
		w.st.setters++
	}
	w.snapA = (&fsWorld{base: w.a}).snapshotEntries()
	field := map[string]string{"SU": "user", "UM": "umask", "CD": "cwd"}[kind]
	fres := svFrame(before, w.states(), vi, field)

	// ---- bookkeeping of where the views are (lexical: renames and removals of their directories)
	if okA && !v.detached && (kind == "RN" || kind == "RM" || kind == "RA") {
		src := svJoinDir(v.dir, vas[0])
		for _, x := range w.views {
			if x.detached || x.dir == "/" || !(x.dir == src || strings.HasPrefix(x.dir, src+"/")) {
				continue
			}
			if kind == "RN" {
				x.dir = svJoinDir(v.dir, vas[1]) + strings.TrimPrefix(x.dir, src)
			} else if _, err := w.a.Lstat(x.dir); err != nil {
				x.detached, x.dir, x.isRoot = true, "", false
				w.st.detachedViews++
			}
		}
	}

	// ---- C: confinement
	cres := "ok"
	if !v.isRoot {
		w.st.confChecked++
		for _, p := range ps {
			if strings.Contains(p, "SECRET") {
				w.st.attackOps++
				break
			}
		}
		if svLeaks(v, resA) {
			cres = "LEAK:" + notok(resA)
		} else if strings.HasPrefix(resA, "IS ") && strings.Contains(resA, svSecretNameHex) && !v.detached && !w.secretNameInside(v.dir) {
			// a listing through the view shows a SECRET* name although no entry of that name exists below
			// the view's directory (one may: an escape attempt that was confined created it there)
			cres = "LEAK-LIST:" + notok(resA)
		} else if after := svSecretLines(w.snapA, v); after != secretBefore {
			cres = "MOD:" + tok(secretBefore) + ">" + tok(after)
		}
	}

	// ---- T: twin
	tres := "ok"
	if w.twin && !w.twinLost {
		tres = w.twinStep(kind, tt, v, ps, vas, user, umask, searchOK, resA)
	}
	return shown + " T=" + tres + " I=" + w.showViews() + " C=" + cres + " F=" + fres + " #" + w.digest(), false
}

func (w *svWorld) secretNameInside(dir string) bool {
	for _, e := range w.snapA {
		if strings.HasPrefix(e.path, dir+"/") && strings.HasPrefix(path.Base(e.path), "SECRET") {
			return true
		}
	}
	return false
}

func (w *svWorld) digest() string {
	s := md5.Sum([]byte(snapText(w.snapA)))
	return hex.EncodeToString(s[:])
}

func (w *svWorld) twinStep(kind string, tt []string, v *svView, ps, vas []string, user avfs.UserReader, umask fs.FileMode,
	searchOK bool, resA string) string {
	pos := svPathPos(kind)
	if len(pos) == 0 { // WD, SU, UM: nothing to mirror
		return "ok"
	}
	sync := func() string {
		sb := (&fsWorld{base: w.b}).snapshotEntries()
		if snapText(sb) != snapText(w.snapA) {
			return "A=" + tok(snapText(w.snapA)) + ";B=" + tok(snapText(sb))
		}
		return ""
	}
	rootOperand := false
	for _, va := range vas {
		if va == "/" && !v.isRoot {
			rootOperand = true
		}
	}
	if v.detached || (rootOperand && (kind == "RM" || kind == "RA" || kind == "RN")) {
		// the view's own root as an operand of Remove / Rename (the view refuses: it is its root; the
		// parent would act on the directory), or a view on a removed directory: nothing to mirror
		w.st.aOnly++
		if sync() != "" {
			w.twinLost = true
			w.st.twinLost++
		}
		return "ok"
	}
	tb := append([]string(nil), tt...)
	var pbs []string
	if !searchOK {
		// the acting user may not search the directories leading to the view's root: the prefixed call
		// through the parent is refused where the view is not (hypothesis of C11_prefix); B follows
		// through a view of its own
		w.st.twinViaSub++
		bs, err := w.b.Sub(v.dir)
		if err != nil {
			return "DIFF(sub:" + tok(v.dir) + ":" + errCode(err) + ")"
		}
		bs.SetUser(user)
		bs.SetUMask(umask)
		for k, i := range pos {
			tb[i] = tok(vas[k])
			if ps[k] == "" && (kind == "MK" || kind == "RA") {
				tb[i] = tok("")
			}
		}
		svApply(bs, nil, tb)
		if d := sync(); d != "" {
			return "DIFF(sync:" + d + ")"
		}
		return "ok"
	}
	w.pb.SetUser(user)
	w.pb.SetUMask(umask)
	for k, i := range pos {
		p := svJoinDir(v.dir, vas[k])
		if ps[k] == "" && (kind == "MK" || kind == "RA") {
			p = ""
		}
		pbs = append(pbs, p)
		tb[i] = tok(p)
	}
	if kind == "RN" && ps[0] != ps[1] && pbs[0] == pbs[1] {
		// Rename tells "the same directory under another spelling" from "onto itself" by comparing the
		// two strings it is given: keep the two spellings different on B as they are on A
		pbs[1] += "/."
		tb[pos[1]] = tok(pbs[1])
	}
	resB, _, fB := svApply(w.pb, nil, tb)
	if fB != nil {
		fB.Close()
	}
	w.st.twinCompared++
	if kind == "CD" || kind == "SB" { // only the outcome: nothing in the tree changes
		if strings.HasPrefix(resA, "E ") != strings.HasPrefix(resB, "E ") || (strings.HasPrefix(resA, "E ") && resA != resB) {
			return "DIFF(res:A=" + notok(resA) + ";B=" + notok(resB) + ")"
		}
		return "ok"
	}
	if !twinSame(kind, ps, pbs, resA, resB, v.dir) {
		return "DIFF(res:A=" + notok(resA) + ";B=" + notok(resB) + ")"
	}
	if d := sync(); d != "" {
		return "DIFF(snap:" + d + ")"
	}
	return "ok"
}

func runSvHistory(line string, st *svStats) string {
	parts := strings.Split(line, " | ")
	hd := strings.Fields(parts[0])
	w := newSvWorld(atoi(hd[1]), hd[2] == "twin", st)
	var outs []string
	for _, o := range parts[1:] {
		r, stop := w.step(strings.Fields(o))
		outs = append(outs, r)
		if stop {
			break
		}
	}
	return strings.Join(outs, " | ")
}

// ---- generator -----------------------------------------------------------------------------------
type svGen struct {
	r        *rng
	w        *svWorld
	links    bool
	maxViews int
	nextView int
	nextH    int
	o        *out
}

// entries of the base snapshot that lie inside the view, as paths of the view
func (g *svGen) inside(v *svView, kind byte) []string {
	var c []string
	if v.detached {
		return c
	}
	for _, e := range g.w.snapA {
		if strings.Contains(e.path, "SECRET") || (kind != 0 && e.kind != kind) {
			continue
		}
		switch {
		case v.dir == "/":
			c = append(c, e.path)
		case e.path == v.dir:
			c = append(c, "/")
		case strings.HasPrefix(e.path, v.dir+"/"):
			c = append(c, strings.TrimPrefix(e.path, v.dir))
		}
	}
	return c
}

func (g *svGen) pickIn(v *svView, kind byte) string {
	c := g.inside(v, kind)
	if len(c) == 0 {
		return "/" + g.r.pick(fsNames)
	}
	return c[g.r.intn(len(c))]
}

var svAttack = []string{"/../SECRET1", "../../SECRET1", "/../SECRETD", "/../SECRETD/f", "../../../SECRETD/f", "/SECRET1",
	"/SECRETD/f", "/a/../../SECRET1", "/./../SECRETD/../SECRET1", "//../SECRET1", "../SECRET1", "/../../SECRETD"}

// a path for a call through view v: clean absolute / unclean / relative spellings
func (g *svGen) vpath(v *svView) string {
	r := g.r
	var p string
	switch k := r.intn(10); {
	case k < 4:
		p = g.pickIn(v, 0)
	case k < 8:
		p = pjoin(g.pickIn(v, 'D'), r.pick(fsNames))
	case k == 8:
		p = "/" + r.pick(fsNames) + "/" + r.pick(fsNames) + "/" + r.pick(fsNames)
	default:
		p = pjoin(g.pickIn(v, 'F'), r.pick(fsNames))
	}
	switch k := r.intn(12); {
	case k < 6:
		g.o.count("path:clean-absolute")
		return p
	case k < 9: // unclean spellings of the same path
		g.o.count("path:unclean")
		g.w.st.uncleanOps++
		switch r.intn(7) {
		case 0:
			return p + "/"
		case 1:
			return "/." + p
		case 2:
			return p + "/../" + r.pick(fsNames)
		case 3:
			return "/" + p
		case 4:
			return "/.." + p
		case 5:
			return p + "/."
		default:
			return "/" + r.pick(fsNames) + "/.." + p
		}
	default: // relative to the view's current directory
		wd := curDirOf(v.vfs)
		g.o.count("path:relative")
		g.w.st.relOps++
		switch {
		case wd == "/" && len(p) > 1:
			return p[1:]
		case strings.HasPrefix(p, wd+"/"):
			return strings.TrimPrefix(p, wd+"/")
		case r.chance(1, 3):
			return r.pick([]string{".", "..", "../" + r.pick(fsNames), "./" + r.pick(fsNames), r.pick(fsNames)})
		default:
			ups := strings.Repeat("../", strings.Count(wd, "/"))
			return ups + strings.TrimPrefix(p, "/")
		}
	}
}

func (g *svGen) liveView() *svView {
	return g.w.views[g.w.order[g.r.intn(len(g.w.order))]]
}

func (g *svGen) op() string {
	r := g.r
	w := g.w
	v := g.liveView()
	if len(w.order) > 1 && r.chance(2, 3) { // prefer the views over the parent
		v = w.views[w.order[1+r.intn(len(w.order)-1)]]
	}
	vs := strconv.Itoa(v.id)
	perm := func() string { return strconv.FormatUint(uint64(fsPerms[r.intn(len(fsPerms))]), 10) }
	// make views first
	if len(w.order) < g.maxViews && (len(w.order) == 1 && r.chance(1, 2) || r.chance(1, 12)) {
		from := g.liveView()
		p := g.pickIn(from, 'D')
		if r.chance(1, 8) {
			p = "/"
		}
		if r.chance(1, 6) {
			p = g.vpath(from)
		}
		g.nextView++
		return fmt.Sprintf("SB %d %s %d", from.id, tok(p), g.nextView)
	}
	// attacks on the secrets, through views that are not views of "/"
	if !v.isRoot && r.chance(1, 6) {
		a := r.pick(svAttack)
		in := pjoin(g.pickIn(v, 'D'), r.pick(fsNames))
		g.o.count("path:attack")
		k := r.intn(16)
		if g.links && r.chance(1, 3) {
			k = 14
		}
		switch k {
		case 0:
			return fmt.Sprintf("RF %s %s", vs, tok(a))
		case 1:
			return fmt.Sprintf("ST %s %s", vs, tok(a))
		case 2:
			return fmt.Sprintf("RD %s %s", vs, tok(path.Dir(a)))
		case 3:
			return fmt.Sprintf("RM %s %s", vs, tok(a))
		case 4:
			return fmt.Sprintf("RA %s %s", vs, tok(a))
		case 5:
			return fmt.Sprintf("RN %s %s %s", vs, tok(a), tok(in))
		case 6:
			return fmt.Sprintf("WF %s %s %s %s", vs, tok(a), tok("pwned"), perm())
		case 7:
			return fmt.Sprintf("TR %s %s 0", vs, tok(a))
		case 8:
			return fmt.Sprintf("CM %s %s %s", vs, tok(a), perm())
		case 9:
			return fmt.Sprintf("CO %s %s 1000 1000", vs, tok(a))
		case 10:
			return fmt.Sprintf("LN %s %s %s", vs, tok(a), tok(in))
		case 11:
			g.nextH++
			return fmt.Sprintf("OP %s %s %d %s %d", vs, tok(a), r.pick2([]int{0, os.O_RDWR, os.O_WRONLY | os.O_TRUNC}), perm(), g.nextH)
		case 12:
			g.nextView++
			return fmt.Sprintf("SB %s %s %d", vs, tok(path.Dir(a)), g.nextView)
		case 13:
			return fmt.Sprintf("CD %s %s", vs, tok(path.Dir(a)))
		case 14:
			if g.links { // a link made through the view, then followed through the view
				return fmt.Sprintf("SL %s %s %s", vs, tok(r.pick([]string{"/SECRET1", "/../SECRET1", "../../SECRET1", "/SECRETD", "../../../SECRETD/f", "/.."})), tok(in))
			}
			return fmt.Sprintf("RN %s %s %s", vs, tok(in), tok(a))
		default:
			return fmt.Sprintf("ES %s %s", vs, tok(a))
		}
	}
	if len(w.handles) > 0 && r.chance(1, 10) {
		ids := make([]int, 0, len(w.handles))
		for id := range w.handles {
			ids = append(ids, id)
		}
		sort.Ints(ids)
		h := ids[r.intn(len(ids))]
		if r.chance(3, 4) {
			return fmt.Sprintf("fCD %d", h)
		}
		return fmt.Sprintf("fCL %d", h)
	}
	switch k := r.intn(100); {
	case k < 9:
		return fmt.Sprintf("MK %s %s %s", vs, tok(g.vpath(v)), perm())
	case k < 13:
		return fmt.Sprintf("MA %s %s %s", vs, tok(g.vpath(v)), perm())
	case k < 18:
		g.nextH++
		fl := g.r.pick2([]int{0, 0, os.O_RDWR, os.O_WRONLY | os.O_CREATE, os.O_RDWR | os.O_CREATE | os.O_EXCL, os.O_WRONLY | os.O_TRUNC, os.O_RDWR | os.O_CREATE | os.O_TRUNC})
		p := g.vpath(v)
		if r.chance(1, 2) {
			p = g.pickIn(v, 'D')
			fl = 0
		}
		return fmt.Sprintf("OP %s %s %d %s %d", vs, tok(p), fl, perm(), g.nextH)
	case k < 27:
		return fmt.Sprintf("WF %s %s %s %s", vs, tok(g.vpath(v)), tok(r.pick(fsData)), perm())
	case k < 32:
		return fmt.Sprintf("RM %s %s", vs, tok(g.vpath(v)))
	case k < 34:
		return fmt.Sprintf("RA %s %s", vs, tok(g.vpath(v)))
	case k < 41:
		return fmt.Sprintf("RN %s %s %s", vs, tok(g.vpath(v)), tok(g.vpath(v)))
	case k < 45:
		return fmt.Sprintf("LN %s %s %s", vs, tok(g.vpath(v)), tok(g.vpath(v)))
	case k < 48:
		if g.links {
			tg := r.pick([]string{r.pick(fsNames), "../" + r.pick(fsNames), g.pickIn(v, 0), "/" + r.pick(fsNames), "/..", "..", "/"})
			return fmt.Sprintf("SL %s %s %s", vs, tok(tg), tok(g.vpath(v)))
		}
		return fmt.Sprintf("LS %s %s", vs, tok(g.vpath(v)))
	case k < 50:
		return fmt.Sprintf("TR %s %s %d", vs, tok(g.vpath(v)), r.pick2([]int{0, 1, 3, 12}))
	case k < 54:
		return fmt.Sprintf("CM %s %s %s", vs, tok(g.vpath(v)), perm())
	case k < 57:
		u := fsUsers[r.intn(len(fsUsers))]
		return fmt.Sprintf("%s %s %s %d %d", r.pick([]string{"CO", "LC"}), vs, tok(g.vpath(v)), u[0], u[1])
	case k < 58:
		return fmt.Sprintf("CT %s %s", vs, tok(g.vpath(v)))
	case k < 66:
		p := g.pickIn(v, 'D')
		if r.chance(1, 3) {
			p = g.vpath(v)
		}
		return fmt.Sprintf("CD %s %s", vs, tok(p))
	case k < 68:
		return "WD " + vs
	case k < 73:
		return fmt.Sprintf("%s %s %s", r.pick([]string{"ST", "LS"}), vs, tok(g.vpath(v)))
	case k < 75:
		return fmt.Sprintf("ES %s %s", vs, tok(g.vpath(v)))
	case k < 79:
		return fmt.Sprintf("RD %s %s", vs, tok(g.vpath(v)))
	case k < 83:
		return fmt.Sprintf("RF %s %s", vs, tok(g.vpath(v)))
	case k < 85:
		if g.links {
			return fmt.Sprintf("RL %s %s", vs, tok(g.vpath(v)))
		}
		return fmt.Sprintf("ST %s %s", vs, tok(g.vpath(v)))
	case k < 93:
		u := fsUsers[r.intn(len(fsUsers))]
		return fmt.Sprintf("SU %s %d %d %d", vs, u[0], u[1], u[2])
	default:
		return fmt.Sprintf("UM %s %d", vs, r.pick2([]int{0, 0o22, 0o27, 0o77, 0o2}))
	}
}

func runSubview(cfg config) {
	o := newOut(cfg.dir, cfg.name)
	defer o.close(cfg.name)
	st := &svStats{}
	if rl := cfg.replayLines(); rl != nil {
		for _, l := range rl {
			o.emit(l, runSvHistory(l, st), "")
		}
		return
	}
	nh, hl, maxViews := 220, 45, 3
	if cfg.tier == "thorough" {
		nh, hl, maxViews = 4000, 90, 4
	}
	o.rule = fmt.Sprintf("%d random histories of %d calls on a parent MemFS and up to %d views made with Sub at existing directories (nested views and views of \"/\" included), per-view SetUser/SetUMask/Chdir and File.Chdir mixed in; path shapes: clean absolute, unclean (.., ., //, trailing /), relative to the view's cwd, and escape attempts at secrets planted at the top of the tree; 3 of 4 histories are symlink-free and run against a twin instance driven through its root with prefixed paths (T), 1 of 4 contain symbolic links made through the views (absolute and .. targets); every result, the state (user, umask, cwd) of every live view and the tree digest after every call are compared with the extracted Coq world model; distinct = distinct (call kind, result kind, acting view kind) x tree digest", nh, hl, maxViews-1)
	r := &rng{s: cfg.seed*104729 + 71}
	total := 0
	for i := 0; i < nh; i++ {
		um := r.pick2([]int{0o22, 0o22, 0, 0o77})
		links := i%4 == 3
		mode := "twin"
		if links {
			mode = "links"
		}
		hdr := fmt.Sprintf("sv %d %s", um, mode)
		w := newSvWorld(um, !links, st)
		g := &svGen{r: r, w: w, links: links, maxViews: maxViews, o: o}
		ops := []string{
			"MK 0 " + tok("/SECRETD") + " 511", "WF 0 " + tok("/SECRETD/f") + " " + tok(svMarker+"-D") + " 438",
			"WF 0 " + tok("/SECRET1") + " " + tok(svMarker+"-1") + " 438",
			"MA 0 " + tok("/a/b") + " 511", "MK 0 " + tok("/c") + " 493", "WF 0 " + tok("/a/b/a") + " " + tok("hello") + " 438",
			"CM 0 " + tok("/a") + " 511", "CM 0 " + tok("/a/b") + " 511",
		}
		var outs []string
		stopped := false
		for _, op := range ops {
			res, stop := w.step(strings.Fields(op))
			outs = append(outs, res)
			if stop {
				stopped = true
				break
			}
		}
		for j := 0; j < hl && !stopped; j++ {
			op := g.op()
			res, stop := w.step(strings.Fields(op))
			ops = append(ops, op)
			outs = append(outs, res)
			o.count("op:" + opKind(op))
			o.count("res:" + resKind(res))
			vk := "parent"
			if f := strings.Fields(op); f[0][0] != 'f' {
				if v, ok := w.views[atoi(f[1])]; ok && v.id != 0 {
					vk = "view"
					if v.isRoot {
						vk = "rootview"
					} else if v.nested > 0 {
						vk = "nested"
					}
					if v.detached {
						vk = "detached"
					}
				}
			}
			o.count("through:" + vk)
			o.distinct[opKind(op)+"/"+resKind(res)+"/"+vk+"#"+w.digest()] = struct{}{}
			if stop {
				break
			}
		}
		total += len(ops)
		o.emit(hdr+" | "+strings.Join(ops, " | "), strings.Join(outs, " | "), "")
	}
	o.extra["evaluations"] = total
	o.extra["total_calls"] = total
	o.extra["twin_compared_calls"] = st.twinCompared
	o.extra["twin_followed_through_view_of_B_calls(search permission on the prefix missing)"] = st.twinViaSub
	o.extra["twin_not_applicable_calls(view root as operand of Remove/Rename, detached view)"] = st.aOnly
	o.extra["twin_lost_histories"] = st.twinLost
	o.extra["confinement_checked_calls"] = st.confChecked
	o.extra["escape_attempt_calls"] = st.attackOps
	o.extra["views_made"] = st.views
	o.extra["nested_views"] = st.nestedViews
	o.extra["views_of_root"] = st.rootViews
	o.extra["views_whose_directory_was_removed"] = st.detachedViews
	o.extra["setter_calls"] = st.setters
	o.extra["relative_path_calls"] = st.relOps
	o.extra["unclean_path_calls"] = st.uncleanOps
}
