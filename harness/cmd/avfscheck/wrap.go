package main

// Correspondence runs for C09 (RoFS) and C12 (FailFS): histories of ALL avfs.VFS and
// avfs.File methods through the wrapper over MemFS / OrefaFS bases holding random trees.
//
//   client --> wrapper (rofs / failfs) --> recording proxy (wrap_gen.go) --> base B
//                                                             twin base T, driven directly
//
// Per call the harness records (a) the answer through the wrapper, (b) every call that
// reached the base with its answer (the proxy's log; goes into the CASE line, because the
// model is parametric in the base and replays these answers), (c) the ids the failure
// function was consulted with, (d) a full snapshot of B (tree, bytes, modes, owners,
// mtimes, link counts) before and after.  Independently of the model it evaluates the
// property itself (base unchanged / refused / equal to the twin) and marks failures PROPFAIL.

import (
	"crypto/md5"
	"encoding/hex"
	"errors"
	"fmt"
	"io"
	"io/fs"
	"os"
	"path"
	"reflect"
	"regexp"
	"sort"
	"strconv"
	"strings"
	"sync"
	"time"

	"github.com/avfs/avfs"
	"github.com/avfs/avfs/idm/memidm"
	"github.com/avfs/avfs/vfs/failfs"
	"github.com/avfs/avfs/vfs/memfs"
	"github.com/avfs/avfs/vfs/orefafs"
	"github.com/avfs/avfs/vfs/rofs"
)

func init() {
	commands["wrap-rofs"] = func(cfg config) { runWrap(cfg, "rofs") }
	commands["wrap-failfs"] = func(cfg config) { runWrap(cfg, "failfs") }
}

// ---------------------------------------------------------------------------
// canonical answers

type wrAns struct {
	val, err string
	obj      int // -1: none
}

func (a wrAns) String() string {
	o := "-"
	if a.obj >= 0 {
		o = strconv.Itoa(a.obj)
	}
	return a.val + "!" + a.err + "@" + o
}

type wrInj struct{ k int }

func (e *wrInj) Error() string { return fmt.Sprintf("injected fault %d", e.k) }

type wrBadArg struct{}

func wrHex(s string) string { return hex.EncodeToString([]byte(s)) }

var wrTempRe = regexp.MustCompile(`vt\.[0-9]+\.z`)

// random parts of temporary names are not observable
func wrNorm(s string) string { return wrTempRe.ReplaceAllString(s, "vt.#.z") }

func wrCanonErr(err error) string {
	if err == nil {
		return "-"
	}
	if ie, ok := err.(*wrInj); ok {
		return "J" + strconv.Itoa(ie.k)
	}
	var ie *wrInj
	if errors.As(err, &ie) {
		return "Jw" + strconv.Itoa(ie.k) // an injected error that came back wrapped: not "exactly that error"
	}
	if err == io.EOF {
		return "EOF"
	}
	e := err
	for {
		switch x := e.(type) {
		case *fs.PathError:
			e = x.Err
			continue
		case *os.LinkError:
			e = x.Err
			continue
		}
		break
	}
	if le, ok := e.(avfs.LinuxError); ok {
		return "E" + strconv.Itoa(int(le))
	}
	return "X" + wrHex(fmt.Sprintf("%T:%s", e, wrNorm(e.Error())))
}

// zero values that accompany an error are not observable ("", 0, nil slices)
var wrZero = map[string]bool{"u": true, "t": true, "i0": true, "b": true, "n[]": true, "e[]": true}

func wrAnsOf(val string, err error, obj int) wrAns {
	if err != nil && wrZero[val] {
		val = "u"
	}
	return wrAns{val: val, err: wrCanonErr(err), obj: obj}
}

func wrTokS(s string) string { return "s" + wrHex(wrNorm(s)) }
func wrTokList(xs []string) []string {
	r := make([]string, len(xs))
	for i, x := range xs {
		r[i] = wrTokS(x)
	}
	return r
}
func wrStr(t string) string {
	if !strings.HasPrefix(t, "s") {
		panic(wrBadArg{})
	}
	b, err := hex.DecodeString(t[1:])
	if err != nil {
		panic(wrBadArg{})
	}
	return string(b)
}
func wrStrs(ts []string) []string {
	r := make([]string, len(ts))
	for i, t := range ts {
		r[i] = wrStr(t)
	}
	return r
}
func wrInt(t string) int {
	n, err := strconv.Atoi(t)
	if err != nil {
		panic(wrBadArg{})
	}
	return n
}
func wrValS(s string) string { return "t" + wrHex(wrNorm(s)) }
func wrValB(b bool) string {
	if b {
		return "i1"
	}
	return "i0"
}
func wrValI(n int64) string      { return "i" + strconv.FormatInt(n, 10) }
func wrValBytes(b []byte) string { return "b" + hex.EncodeToString(b) }
func wrValNames(xs []string) string {
	r := make([]string, len(xs))
	for i, x := range xs {
		r[i] = wrHex(wrNorm(x))
	}
	return "n[" + strings.Join(r, ",") + "]"
}
func wrTypeTok(m fs.FileMode) string {
	switch {
	case m&fs.ModeDir != 0:
		return "d"
	case m&fs.ModeSymlink != 0:
		return "l"
	case m.Type() == 0:
		return "f"
	}
	return "o"
}
func wrValEntries(es []fs.DirEntry) string {
	r := make([]string, len(es))
	for i, e := range es {
		r[i] = wrHex(wrNorm(e.Name())) + ":" + wrTypeTok(e.Type())
	}
	return "e[" + strings.Join(r, ",") + "]"
}
func wrInfoText(fi fs.FileInfo) string {
	uid, gid, nlink := -1, -1, uint64(0)
	if st, ok := fi.Sys().(avfs.SysStater); ok && st != nil {
		uid, gid, nlink = st.Uid(), st.Gid(), st.Nlink()
	}
	sz := fi.Size()
	if fi.IsDir() {
		sz = 0 // directory sizes are file-system specific
	}
	return fmt.Sprintf("%s|%d|%o|%d|%d|%d", wrNorm(fi.Name()), sz, uint32(fi.Mode()), uid, gid, nlink)
}
func wrValInfo(fi fs.FileInfo) string {
	if wrIsNil(fi) {
		return "u"
	}
	d := "0"
	if fi.IsDir() {
		d = "1"
	}
	return "f" + d + ":" + wrHex(wrInfoText(fi))
}
func wrValUser(u avfs.UserReader) string {
	if wrIsNil(u) {
		return "u"
	}
	return wrValS(fmt.Sprintf("%s:%d:%d", u.Name(), u.Uid(), u.Gid()))
}
func wrValSys(s avfs.SysStater) string {
	if wrIsNil(s) {
		return "u"
	}
	return wrValS(fmt.Sprintf("%d:%d:%d", s.Uid(), s.Gid(), s.Nlink()))
}
func wrIdmTok(i avfs.IdentityMgr) string {
	if i == avfs.NotImplementedIdm {
		return "0"
	}
	return "1"
}
func wrIsNil(x any) bool {
	if x == nil {
		return true
	}
	v := reflect.ValueOf(x)
	switch v.Kind() {
	case reflect.Ptr, reflect.Interface, reflect.Map, reflect.Slice, reflect.Func:
		return v.IsNil()
	}
	return false
}
func wrPanicText(r any) string { return fmt.Sprintf("%T", r) }

// ---------------------------------------------------------------------------
// recording proxy (methods in wrap_gen.go)

type recorder struct {
	calls []string
	next  int
}

func (r *recorder) log(id int, m string, args []string, a wrAns) {
	s := fmt.Sprintf("b%d %s", id, m)
	if len(args) > 0 {
		s += " " + strings.Join(args, " ")
	}
	r.calls = append(r.calls, s+" = "+a.String())
}

// panicLog is deferred by every recorded proxy method: a panic inside the base is recorded as the
// base's answer to that call and propagates unchanged.
func (r *recorder) panicLog(id int, m string, args []string) {
	if x := recover(); x != nil {
		r.log(id, m, args, wrAns{val: "u", err: "P" + wrHex(wrPanicText(x)), obj: -1})
		panic(x)
	}
}

// times travel as Unix nanoseconds; "0" is the zero time.Time
func wrTimeTok(t time.Time) string {
	if t.IsZero() {
		return "0"
	}
	return strconv.FormatInt(t.UnixNano(), 10)
}
func wrTime(tok string) time.Time {
	n := wrInt(tok)
	if n == 0 {
		return time.Time{}
	}
	return time.Unix(0, int64(n))
}

func (r *recorder) wrapFile(f avfs.File) *recFile {
	r.next++
	return &recFile{b: f, id: r.next, rec: r}
}
func (r *recorder) wrapVFS(v avfs.VFS) *recVFS {
	r.next++
	return &recVFS{b: v, id: r.next, rec: r}
}

type recVFS struct {
	b   avfs.VFS
	id  int
	rec *recorder
}
type recFile struct {
	b   avfs.File
	id  int
	rec *recorder
}

// ---------------------------------------------------------------------------
// one side (base B or twin T)

type wrEnv struct {
	raw      avfs.VFS
	idms     []avfs.IdentityMgr
	failFunc failfs.FailFunc
}

func (e *wrEnv) info(path string) fs.FileInfo {
	fi, err := e.raw.Lstat(path)
	if err != nil {
		return nil
	}
	return fi
}
func (e *wrEnv) idm(i int) avfs.IdentityMgr {
	if i <= 0 || i > len(e.idms) {
		return avfs.NotImplementedIdm
	}
	return e.idms[i-1]
}
func (e *wrEnv) user(name string) avfs.UserReader {
	u, err := e.raw.Idm().LookupUser(name)
	if err != nil || wrIsNil(u) {
		return e.raw.Idm().AdminUser()
	}
	return u
}

// ---------------------------------------------------------------------------
// snapshot of a base: tree, bytes, modes, owners, link counts (+ mtimes)

var wrTopNames = []string{"a", "b", "d1", "f1", "tmp1", "tmp2"}

func wrSnapshot(v avfs.VFS, admin avfs.UserReader, withTimes bool) string {
	cur := v.User()
	swapped := false
	if !wrIsNil(admin) && !wrIsNil(cur) && cur.Uid() != admin.Uid() {
		_ = v.SetUser(admin)
		swapped = true
	}
	var lines []string
	seen := map[string]bool{}
	var walk func(p string)
	walk = func(p string) {
		if seen[p] {
			return
		}
		seen[p] = true
		fi, err := v.Lstat(p)
		if err != nil {
			return
		}
		l := p + " " + wrInfoText(fi)
		if withTimes {
			l += " m" + strconv.FormatInt(fi.ModTime().UnixNano(), 10)
		}
		switch {
		case fi.Mode()&fs.ModeSymlink != 0:
			t, _ := v.Readlink(p)
			l += " ->" + t
		case fi.IsDir():
			es, _ := v.ReadDir(p)
			lines = append(lines, wrNorm(l))
			for _, e := range es {
				if p == "/" {
					walk("/" + e.Name())
				} else {
					walk(p + "/" + e.Name())
				}
			}
			return
		default:
			b, _ := v.ReadFile(p)
			s := md5.Sum(b)
			l += " #" + hex.EncodeToString(s[:6])
		}
		lines = append(lines, wrNorm(l))
	}
	walk("/")
	// OrefaFS cannot list its root: probe the top-level names the generators use
	for _, n := range []string{"tmp", "home", "root"} {
		walk("/" + n)
	}
	for _, n := range wrTopNames {
		walk("/" + n)
	}
	if swapped {
		_ = v.SetUser(cur)
	}
	sort.Strings(lines)
	return strings.Join(lines, "\n")
}

// ---------------------------------------------------------------------------
// classification used by the property oracle of the harness (independent of the model)

var wrWriteV = map[string]bool{"Chmod": true, "Chown": true, "Chtimes": true, "Create": true, "CreateTemp": true, "Lchown": true,
	"Link": true, "Mkdir": true, "MkdirAll": true, "MkdirTemp": true, "Remove": true, "RemoveAll": true, "Rename": true,
	"Symlink": true, "Truncate": true, "WriteFile": true}
var wrSessionV = map[string]bool{"Chdir": true, "SetUMask": true, "SetUser": true, "SetUserByName": true, "SetIdm": true}
var wrConfigV = map[string]bool{"SetFailFunc": true, "Features": true, "HasFeature": true, "SetFeatures": true, "Idm": true, "Name": true, "Type": true,
	"OSType": true}
var wrWriteF = map[string]bool{"Chmod": true, "Chown": true, "Truncate": true, "Write": true, "WriteAt": true, "WriteString": true}
var wrSessionF = map[string]bool{"Sync": true, "Chdir": true}
var wrGetterV = map[string]bool{"Base": true, "Clean": true, "Dir": true, "FromSlash": true, "IsAbs": true, "IsPathSeparator": true,
	"Join": true, "Match": true, "Rel": true, "Split": true, "ToSlash": true, "PathSeparator": true, "TempDir": true, "OSType": true,
	"User": true, "UMask": true, "SameFile": true, "ToSysStat": true, "Features": true, "HasFeature": true, "Name": true, "Type": true,
	"Idm": true}
var wrGetterF = map[string]bool{"Fd": true, "Name": true}
var wrCompositeV = map[string]bool{"Create": true, "WriteFile": true, "ReadFile": true, "ReadDir": true, "Glob": true, "MkdirTemp": true}

func wrClass(file bool, m string, a []string) string {
	if file {
		switch {
		case wrWriteF[m]:
			return "write"
		case wrSessionF[m]:
			return "session"
		}
		return "read"
	}
	switch {
	case wrWriteV[m]:
		return "write"
	case m == "OpenFile":
		if len(a) == 3 && a[1] == "0" {
			return "read"
		}
		return "write"
	case wrSessionV[m]:
		return "session"
	case wrConfigV[m]:
		return "config"
	}
	return "read"
}

var wrFnNames = func() map[string]bool {
	m := map[string]bool{}
	for i := 1; i < 200; i++ {
		n := avfs.FnVFS(i).String()
		if strings.HasPrefix(n, "FnVFS(") {
			break
		}
		m["Fn"+strings.TrimPrefix(n, "Fn")] = true
	}
	return m
}()

// wrExpectedFn: the id a method is expected to consult first ("" when it has none of its own).
func wrExpectedFn(file bool, m string) string {
	n := "Fn" + m
	if file {
		n = "FnFile" + m
		if m == "WriteString" {
			n = "FnFileWrite"
		}
	} else if m == "Open" {
		n = "FnOpenFile"
	} else if m == "WriteFile" {
		return "" // FnWriteFile exists but WriteFile is the composite over OpenFile/Write/Close
	}
	if wrFnNames[n] {
		return n
	}
	return ""
}

func wrPermErr(e string) bool { return e == "E13" || e == "E1" }

// ---------------------------------------------------------------------------
// world

type wrObj struct {
	w, t   any // through the wrapper / on the twin (nil: no twin object)
	isFile bool
}

type wrFault struct {
	fn string
	k  int
}

type wrWorld struct {
	kind, baseKind string
	treeSeed       uint64
	plan           string // none | ro | FnX:k[,FnY:j]
	faults         []wrFault
	B, T           avfs.VFS
	envB, envT     *wrEnv
	rec            *recorder
	objs           map[int]*wrObj
	counts         map[string]int
	consults       []string // of the current call
	failed         []string // ids that were failed during the current call
	desync         bool
	ntemp          int
	adminB, adminT avfs.UserReader // the administrators the bases were created with (snapshots are taken as them)
}

func wrNewBase(kind string) avfs.VFS {
	switch kind {
	case "mem":
		return memfs.New()
	case "orefa":
		return orefafs.New()
	}
	panic("bad base kind " + kind)
}

var wrModes = []fs.FileMode{0o644, 0o600, 0o755, 0o700, 0o444, 0o666}

// populate builds the same pseudo-random tree on a base (called for B and for T with the same seed).
func wrPopulate(v avfs.VFS, seed uint64, kind string) {
	r := &rng{s: seed*0x9e3779b9 + 17}
	if kind == "mem" {
		_, _ = v.Idm().AddGroup("g1")
		_, _ = v.Idm().AddUser("u1", "g1")
	}
	_ = v.Chdir("/tmp")
	_ = v.Mkdir("/tmp/d1", 0o755)
	_ = v.WriteFile("/tmp/f1", []byte("hello world"), 0o644)
	_ = v.WriteFile("/tmp/d1/f2", []byte("0123456789abcdef"), 0o600)
	if seed == 0 {
		// the tree of the "sizes" history: files around the 512-byte buffer of avfs.ReadFile
		_ = v.Mkdir("/tmp/sz", 0o755)
		for _, n := range wrFileSizes {
			_ = v.WriteFile(fmt.Sprintf("/tmp/sz/s%d", n), wrSizedData(n), 0o644)
		}
	}
	dirs := []string{"/tmp", "/tmp/d1"}
	nd := 1 + r.intn(4)
	for i := 0; i < nd; i++ {
		p := dirs[r.intn(len(dirs))]
		name := p + "/" + r.pick([]string{"d1", "d2", "a"})
		if v.Mkdir(name, wrModes[2+r.intn(2)]) == nil {
			dirs = append(dirs, name)
		}
	}
	if r.chance(1, 3) {
		_ = v.Mkdir("/d1", 0o755)
		dirs = append(dirs, "/d1")
	}
	var files []string
	nf := 2 + r.intn(5)
	for i := 0; i < nf; i++ {
		p := dirs[r.intn(len(dirs))] + "/" + r.pick([]string{"f1", "f2", "b"})
		data := make([]byte, r.intn(12))
		for j := range data {
			data[j] = byte('a' + r.intn(26))
		}
		if v.WriteFile(p, data, wrModes[r.intn(len(wrModes))]) == nil {
			files = append(files, p)
		}
	}
	if len(files) == 0 {
		_ = v.WriteFile("/tmp/f1", []byte("hello"), 0o644)
		files = append(files, "/tmp/f1")
	}
	if kind == "mem" {
		if r.chance(2, 3) {
			_ = v.Symlink(files[r.intn(len(files))], "/tmp/l1")
		}
		if r.chance(1, 2) {
			_ = v.Symlink(dirs[r.intn(len(dirs))], "/tmp/l2")
		}
		if r.chance(1, 3) {
			_ = v.Symlink("/tmp/nowhere", "/tmp/l3")
		}
		if r.chance(1, 2) {
			_ = v.Chown(files[r.intn(len(files))], 1, 1)
		}
	}
	if r.chance(1, 2) {
		_ = v.Link(files[r.intn(len(files))], "/tmp/h1")
	}
	if r.chance(1, 3) {
		_ = v.Chmod(files[r.intn(len(files))], 0o000)
	}
	_ = v.Chtimes(files[0], time.Unix(1000, 0), time.Unix(2000, 0))
}

func wrNewWorld(kind, baseKind string, treeSeed uint64, plan string) *wrWorld {
	w := &wrWorld{kind: kind, baseKind: baseKind, treeSeed: treeSeed, plan: plan, objs: map[int]*wrObj{}, counts: map[string]int{}}
	if plan != "none" && plan != "ro" {
		for _, p := range strings.Split(plan, ",") {
			i := strings.LastIndex(p, ":")
			k, _ := strconv.Atoi(p[i+1:])
			w.faults = append(w.faults, wrFault{fn: p[:i], k: k})
		}
	}
	w.B, w.T = wrNewBase(baseKind), wrNewBase(baseKind)
	w.adminB, w.adminT = w.B.User(), w.T.User()
	wrPopulate(w.B, treeSeed, baseKind)
	wrPopulate(w.T, treeSeed, baseKind)
	w.envB = &wrEnv{raw: w.B, idms: []avfs.IdentityMgr{memidm.New()}}
	w.envT = &wrEnv{raw: w.T, idms: []avfs.IdentityMgr{memidm.New()}}
	w.rec = &recorder{}
	root := &recVFS{b: w.B, id: 0, rec: w.rec}
	var W avfs.VFS
	switch kind {
	case "rofs":
		W = rofs.New(root)
	case "failfs":
		f := failfs.New(root)
		_ = f.SetFailFunc(w.failFunc)
		w.envB.failFunc = w.failFunc
		W = f
	}
	w.objs[0] = &wrObj{w: W, t: w.T}
	return w
}

func (w *wrWorld) failFunc(v avfs.VFSBase, fn avfs.FnVFS, fp *failfs.FailParam) error {
	name := "Fn" + strings.TrimPrefix(fn.String(), "Fn")
	i := w.counts[name]
	w.counts[name]++
	var err error
	if w.plan == "ro" {
		err = failfs.ReadOnlyFunc(v, fn, fp)
	} else {
		for k, f := range w.faults {
			if f.fn == name && f.k == i {
				err = &wrInj{k: k + 1}
			}
		}
	}
	c := name
	if err != nil {
		c += "*"
		w.failed = append(w.failed, name)
	}
	w.consults = append(w.consults, c)
	return err
}

type wrOp struct {
	obj  int
	file bool
	m    string
	bind int
	args []string
}

func (o wrOp) String() string {
	t := "V."
	if o.file {
		t = "F."
	}
	s := fmt.Sprintf("o%d %s%s %d", o.obj, t, o.m, o.bind)
	if len(o.args) > 0 {
		s += " " + strings.Join(o.args, " ")
	}
	return s
}

func wrParseOp(s string) (wrOp, bool) {
	if i := strings.Index(s, " ~ "); i >= 0 {
		s = s[:i]
	}
	if i := strings.Index(s, " ^ "); i >= 0 {
		s = s[:i]
	}
	f := strings.Fields(s)
	if len(f) < 3 || !strings.HasPrefix(f[0], "o") || len(f[1]) < 3 {
		return wrOp{}, false
	}
	id, err1 := strconv.Atoi(f[0][1:])
	bind, err2 := strconv.Atoi(f[2])
	if err1 != nil || err2 != nil {
		return wrOp{}, false
	}
	return wrOp{obj: id, file: f[1][0] == 'F', m: f[1][2:], bind: bind, args: f[3:]}, true
}

func wrExec(env *wrEnv, o any, file bool, m string, a []string) (wrAns, any, bool) {
	if file {
		f, ok := o.(avfs.File)
		if !ok {
			return wrAns{val: "u", err: "S1", obj: -1}, nil, true
		}
		return wrExecFile(env, f, m, a)
	}
	v, ok := o.(avfs.VFS)
	if !ok {
		return wrAns{val: "u", err: "S1", obj: -1}, nil, true
	}
	if m == "SetFailFunc" { // not part of avfs.VFS: re-installs the failure function of the run
		if f, is := v.(*failfs.FailFS); is && env.failFunc != nil {
			return wrAnsOf("u", f.SetFailFunc(env.failFunc), -1), nil, true
		}
		return wrAns{val: "u", err: "S2", obj: -1}, nil, true
	}
	return wrExecVFS(env, v, m, a)
}

// step executes one op; returns the text appended to the case (op + base calls [+ direct answer])
// and the observed text.
func (w *wrWorld) step(op wrOp, cover map[string]int) (string, string) {
	o := w.objs[op.obj]
	if o == nil || o.isFile != op.file {
		return op.String(), "r=u!S1@- c= x=ok"
	}
	class := wrClass(op.file, op.m, op.args)
	before := wrSnapshot(w.B, w.adminB, true)
	w.rec.calls = nil
	w.consults, w.failed = nil, nil
	ans, obj, ok := wrExec(w.envB, o.w, op.file, op.m, op.args)
	if !ok {
		return op.String(), "BADOP"
	}
	after := wrSnapshot(w.B, w.adminB, true)
	key := "V." + op.m
	if op.file {
		key = "F." + op.m
	}
	cover[key]++
	caseTxt := op.String()
	for _, c := range w.rec.calls {
		caseTxt += " ~ " + c
	}
	getter := (!op.file && wrGetterV[op.m]) || (op.file && wrGetterF[op.m])
	if getter {
		// what the base answers when asked directly (getters are not recorded by the proxy)
		var braw any = w.B
		if op.file || op.obj != 0 {
			braw = wrUnproxy(o.w)
		}
		if braw != nil {
			if d, _, ok := wrExec(w.envB, braw, op.file, op.m, op.args); ok {
				caseTxt += " ^ " + d.String()
			}
		}
	}
	var fails []string
	changed := before != after
	injected := len(w.failed) > 0 && w.plan != "ro"
	// ---- the property, evaluated directly
	var twinObj any
	runTwin := false
	switch w.kind {
	case "rofs":
		if changed {
			fails = append(fails, "base-changed")
		}
		switch class {
		case "write":
			if !wrPermErr(ans.err) {
				fails = append(fails, "not-refused")
			}
		case "read":
			runTwin = true
		case "session":
			runTwin = !wrPermErr(ans.err)
		}
	case "failfs":
		// every method that has a FnVFS id of its own consults it first - on the FailFS and on
		// every object it handed out
		if want := wrExpectedFn(op.file, op.m); want != "" && (len(w.consults) == 0 || strings.TrimSuffix(w.consults[0], "*") != want) {
			fails = append(fails, "not-consulted")
		}
		switch {
		case w.plan == "ro":
			if changed {
				fails = append(fails, "base-changed")
			}
			runTwin = !wrPermErr(ans.err) && class != "config"
		case injected:
			if !op.file && wrCompositeV[op.m] && !(len(w.consults) > 0 && w.consults[0] == "Fn"+op.m+"*") {
				// a primitive inside a composite was failed
				if ans.err == "-" {
					fails = append(fails, "SWALLOW:"+op.m+":"+strings.Join(w.failed, "+"))
				}
				w.desync = true
			} else {
				if !strings.HasPrefix(ans.err, "J") || strings.HasPrefix(ans.err, "Jw") {
					fails = append(fails, "injected-error-not-returned")
				}
				if changed {
					fails = append(fails, "base-changed-by-failed-call")
				}
			}
		default:
			runTwin = class != "config"
		}
	}
	if runTwin && !w.desync && o.t != nil {
		tans, tobj, tok := wrExec(w.envT, o.t, op.file, op.m, op.args)
		if tok {
			twinObj = tobj
			if tans.val != ans.val || tans.err != ans.err || (tobj == nil) != (obj == nil) {
				fails = append(fails, "differs-from-base")
			}
		}
	}
	if w.kind == "failfs" && w.plan == "none" && !w.desync {
		if wrSnapshot(w.B, w.adminB, false) != wrSnapshot(w.T, w.adminT, false) {
			fails = append(fails, "base-differs-from-twin")
			w.desync = true
		}
	}
	if obj != nil {
		ans.obj = op.bind
		_, isFile := obj.(avfs.File)
		w.objs[op.bind] = &wrObj{w: obj, t: twinObj, isFile: isFile}
		if op.m == "CreateTemp" && twinObj != nil {
			w.renameTemp(obj.(avfs.File).Name(), twinObj.(avfs.File).Name())
		}
	}
	if op.m == "MkdirTemp" && !op.file && ans.err == "-" && runTwin && !w.desync {
		// the directories got different random names on B and T: give both the same one
		w.renameTempDir(op.args[0])
	}
	rtxt := ans.String()
	if class == "config" {
		rtxt = "cfg" // identity of the file system object itself: exempt (DESIGN C09: class CConfig)
	}
	obs := "r=" + rtxt + " c=" + strings.Join(w.consults, ",") + " x=ok"
	for _, f := range fails {
		if strings.HasPrefix(f, "SWALLOW:") {
			obs += " " + f
		} else {
			obs += " PROPFAIL:" + f
		}
	}
	return caseTxt, obs
}

// wrUnproxy digs the raw base object out of a wrapper object (for "ask the base directly").
func wrUnproxy(x any) any {
	for depth := 0; depth < 4 && x != nil; depth++ {
		switch p := x.(type) {
		case *recVFS:
			return p.b
		case *recFile:
			return p.b
		}
		v := reflect.ValueOf(x)
		if v.Kind() == reflect.Ptr && !v.IsNil() && v.Elem().Kind() == reflect.Struct {
			var next any
			for _, fn := range []string{"baseFS", "baseFile"} {
				f := v.Elem().FieldByName(fn)
				if f.IsValid() && !f.IsNil() {
					// unexported field: read the interface value through its address
					next = reflect.NewAt(f.Type(), f.Addr().UnsafePointer()).Elem().Interface()
				}
			}
			x = next
			continue
		}
		return x
	}
	return x
}

func (w *wrWorld) renameTemp(nameB, nameT string) {
	// a name that is free on both sides (the generators may have created /tmp/tmp1 themselves)
	var dst string
	for {
		w.ntemp++
		dst = fmt.Sprintf("/tmp/tmp%d", w.ntemp)
		_, eb := w.B.Lstat(dst)
		_, et := w.T.Lstat(dst)
		if eb != nil && et != nil {
			break
		}
		if w.ntemp > 1000 {
			w.desync = true
			return
		}
	}
	cb, ct := w.B.User(), w.T.User()
	_ = w.B.SetUser(w.adminB)
	_ = w.T.SetUser(w.adminT)
	eb := w.B.Rename(nameB, dst)
	et := w.T.Rename(nameT, dst)
	_ = w.B.SetUser(cb)
	_ = w.T.SetUser(ct)
	if eb != nil || et != nil {
		w.desync = true // the two sides can no longer be given the same names: stop comparing with the twin
	}
}

func (w *wrWorld) renameTempDir(dir string) {
	d := wrStr(dir)
	find := func(v avfs.VFS) string {
		es, _ := v.ReadDir(d)
		found := ""
		for _, e := range es {
			if e.IsDir() && wrTempRe.MatchString(e.Name()) {
				if found != "" {
					return "?" // more than one temporary directory: which is which cannot be told
				}
				found = d + "/" + e.Name()
			}
		}
		return found
	}
	a, b := find(w.B), find(w.T)
	if a == "?" || b == "?" {
		w.desync = true
		return
	}
	if a != "" && b != "" {
		w.renameTemp(a, b)
	} else if a != b {
		w.desync = true
	}
}

// ---------------------------------------------------------------------------
// generation

var wrPaths = []string{"/tmp", "/tmp/f1", "/tmp/f2", "/tmp/b", "/tmp/d1", "/tmp/d1/f1", "/tmp/d1/b", "/tmp/d2", "/tmp/a", "/tmp/a/f2",
	"/tmp/l1", "/tmp/l2", "/tmp/l2/f1", "/tmp/l3", "/tmp/h1", "/d1", "/d1/f1", "/a", "/b", "/f1", "/home", "/tmp/nope", "/tmp/nope/x",
	"f1", "d1", "d1/f1", "../tmp/f1", "b", "", "/tmp/../tmp/f1", "/tmp/tmp1", "/tmp/tmp2", "/tmp/f1/x", "/"}
var wrNewPaths = []string{"/tmp/a", "/tmp/b", "/tmp/d1/b", "/tmp/d1/a", "/a", "/b", "/tmp/d2", "/tmp/f2", "b", "d1/a", "/tmp/nope/x", "/tmp/a/f2"}
var wrPatterns = []string{"*", "/tmp/*", "/tmp/d1/f?", "[", "/tmp/*/f1", "f*", "/tmp/[a-f]*", "/tmp/f1", "/nope/*", "d1/*"}
var wrFlagBits = []int{os.O_WRONLY, os.O_RDWR, os.O_APPEND, os.O_CREATE, os.O_EXCL, os.O_SYNC, os.O_TRUNC}

func wrS(s string) string { return "s" + wrHex(s) }
func wrI(n int) string    { return strconv.Itoa(n) }

func wrGenArgs(r *rng, file bool, m string) []string {
	p := func() string { return wrS(r.pick(wrPaths)) }
	np := func() string {
		if r.chance(1, 3) {
			return p()
		}
		return wrS(r.pick(wrNewPaths))
	}
	safe := func() string { // never the root: Remove/Rename of "/" is another property's business
		for {
			s := r.pick(wrPaths)
			if s != "/" && s != "" {
				return wrS(s)
			}
		}
	}
	mode := func() string { return wrI(int(wrModes[r.intn(len(wrModes))])) }
	data := func() string {
		b := make([]byte, 1+r.intn(4))
		for i := range b {
			b[i] = byte('A' + r.intn(26))
		}
		return wrS(string(b))
	}
	ids := wrIDPairs[r.intn(len(wrIDPairs))] // (-1,x), (x,-1), (-1,-1), (0,0), (42,42), ...
	nid := 0
	id := func() string { nid++; return wrI(ids[(nid-1)%2]) }
	if file {
		switch m {
		case "Chmod":
			return []string{mode()}
		case "Chown":
			return []string{id(), id()}
		case "Read":
			return []string{wrI([]int{0, 1, 5, 64}[r.intn(4)])}
		case "ReadAt":
			return []string{wrI([]int{0, 1, 5, 64}[r.intn(4)]), wrI(wrOffsets[r.intn(len(wrOffsets))])}
		case "ReadDir", "Readdirnames":
			return []string{wrI([]int{-1, 0, 1, 2}[r.intn(4)])}
		case "Seek":
			return []string{wrI(wrOffsets[r.intn(len(wrOffsets))]), wrI(wrWhences[r.intn(len(wrWhences))])}
		case "Truncate":
			return []string{wrI(wrSizes[r.intn(len(wrSizes))])}
		case "Write", "WriteString":
			return []string{data()}
		case "WriteAt":
			return []string{data(), wrI(wrOffsets[r.intn(len(wrOffsets))])}
		}
		return nil
	}
	switch m {
	case "Abs", "Base", "Clean", "Dir", "EvalSymlinks", "FromSlash", "IsAbs", "Lstat", "Open", "ReadDir", "ReadFile", "Readlink",
		"Stat", "ToSlash", "Chdir", "Sub", "WalkDir", "ToSysStat", "Split":
		return []string{p()}
	case "Remove", "RemoveAll":
		return []string{safe()}
	case "Create":
		return []string{np()}
	case "Chmod", "Mkdir", "MkdirAll":
		return []string{np(), mode()}
	case "Chown", "Lchown":
		return []string{p(), id(), id()}
	case "Chtimes":
		// "0" is the zero time.Time
		return []string{p(), wrI(wrTimes[r.intn(len(wrTimes))]), wrI(wrTimes[r.intn(len(wrTimes))])}
	case "CreateTemp", "MkdirTemp":
		return []string{wrS(r.pick([]string{"/tmp", "/tmp", "/tmp/d1", "/tmp/nope"})), wrS("vt.*.z")}
	case "Glob":
		return []string{wrS(r.pick(wrPatterns))}
	case "Match":
		return []string{wrS(r.pick(wrPatterns)), wrS(r.pick([]string{"f1", "/tmp/f1", "a", "/tmp/d1/f1"}))}
	case "HasFeature", "SetFeatures":
		return []string{wrI(1 << uint(r.intn(8)))}
	case "IsPathSeparator":
		return []string{wrI([]int{47, 92, 97}[r.intn(3)])}
	case "Join":
		n := 1 + r.intn(3)
		var a []string
		for i := 0; i < n; i++ {
			a = append(a, wrS(r.pick([]string{"/tmp", "a", "..", "", "b/", "/"})))
		}
		return a
	case "Link", "Symlink":
		return []string{p(), np()}
	case "Rename":
		return []string{safe(), np()}
	case "Rel", "SameFile":
		return []string{p(), p()}
	case "OpenFile":
		fl := 0
		switch {
		case r.chance(1, 3): // O_RDONLY
		case r.chance(1, 3): // a single flag bit (O_TRUNC alone is O_RDONLY|O_TRUNC, ...)
			fl = wrFlagBits[r.intn(len(wrFlagBits))]
		default:
			for _, b := range wrFlagBits {
				if r.chance(1, 3) {
					fl |= b
				}
			}
		}
		return []string{np(), wrI(fl), mode()}
	case "SetIdm":
		return []string{wrI(r.intn(2))}
	case "SetUMask":
		return []string{wrI([]int{0o22, 0o77, 0}[r.intn(3)])}
	case "SetUser", "SetUserByName":
		return []string{wrS(r.pick([]string{"root", "u1", "nobody"}))}
	case "Truncate":
		return []string{p(), wrI(wrSizes[r.intn(len(wrSizes))])}
	case "WriteFile":
		return []string{np(), data(), mode()}
	}
	return nil
}

// OrefaFS panics on relative names of existing entries and on Rename with uncleaned names (slice
// bounds / nil map in its path handling - not a wrapper matter): histories over OrefaFS bases use
// absolute, cleaned names only.
func wrAbsify(baseKind string, file bool, m string, a []string) []string {
	if baseKind != "orefa" || file {
		return a
	}
	fix := func(i int) {
		if i < len(a) && strings.HasPrefix(a[i], "s") {
			s := wrStr(a[i])
			if !strings.HasPrefix(s, "/") {
				s = "/tmp/" + s
			}
			a[i] = wrS(path.Clean(s))
		}
	}
	switch m {
	case "Join", "SetUser", "SetUserByName", "IsPathSeparator", "HasFeature", "SetFeatures", "SetIdm", "SetUMask":
		return a
	case "Rename":
		// OrefaFS.Rename of an existing file panics ("assignment to entry in nil map") in the pinned
		// tree: only the failing rename of a missing source is exercised over OrefaFS
		fix(1)
		a[0] = wrS("/tmp/zz")
	case "Link":
		// OrefaFS.Link of a directory never returns (it locks itself) in the pinned tree: only
		// names that are regular files (or missing) are linked over OrefaFS
		fix(0)
		fix(1)
		if b := path.Base(wrStr(a[0])); b != "f1" && b != "f2" && b != "b" && b != "nope" {
			a[0] = wrS("/tmp/f1")
		}
		// ... and neither does a Link whose new name lies below a regular file
		if len(a) > 1 {
			switch path.Base(path.Dir(wrStr(a[1]))) {
			case "f1", "f2", "b", "h1":
				a[1] = wrS("/tmp/a")
			}
		}
	case "Symlink", "Rel", "SameFile":
		fix(0)
		fix(1)
	default:
		fix(0)
	}
	return a
}

// argument boundaries
var wrIDPairs = [][2]int{{-1, 1}, {42, -1}, {-1, -1}, {0, 0}, {42, 42}, {1, 1}, {0, 1}, {-1, 0}, {0, -1}}
var wrSizes = []int{-1, 0, 3, 16, 20, 4096}
var wrOffsets = []int{-1, 0, 1, 2, 3, 100}
var wrWhences = []int{0, 1, 2, 3, -1}
var wrTimes = []int{0, 1, 3000000000000, 3000000000004, 4000000000001}

// wrBoundaryArgs: the argument tuples a focused search tries first on every target object.
func wrBoundaryArgs(file bool, m string) [][]string {
	var res [][]string
	ints := func(xs []int, rest ...string) {
		for _, x := range xs {
			res = append(res, append([]string{wrI(x)}, rest...))
		}
	}
	pathsFor := []string{"/tmp/f1", "/tmp/d1", "/tmp/d1/f2", "/tmp/l1", "/tmp/nope"}
	if file {
		switch m {
		case "Chown":
			for _, p := range wrIDPairs {
				res = append(res, []string{wrI(p[0]), wrI(p[1])})
			}
		case "Truncate":
			ints(wrSizes)
		case "Chmod":
			ints([]int{0, 0o644, 0o777, 0o7777})
		case "Seek":
			for _, wh := range wrWhences {
				for _, off := range wrOffsets {
					res = append(res, []string{wrI(off), wrI(wh)})
				}
			}
		case "ReadAt":
			for _, off := range wrOffsets {
				res = append(res, []string{"4", wrI(off)})
			}
		case "WriteAt":
			for _, off := range wrOffsets {
				res = append(res, []string{wrS("Q"), wrI(off)})
			}
			res = append(res, []string{wrS(""), "0"})
		case "Write", "WriteString":
			res = append(res, []string{wrS("")}, []string{wrS("Q")})
		case "Read":
			ints([]int{0, 1, 64})
		case "ReadDir", "Readdirnames":
			ints([]int{-1, 0, 1, 100})
		}
		return res
	}
	switch m {
	case "Chown", "Lchown":
		for _, pa := range pathsFor {
			for _, p := range wrIDPairs {
				res = append(res, []string{wrS(pa), wrI(p[0]), wrI(p[1])})
			}
		}
	case "Truncate":
		for _, pa := range pathsFor {
			for _, sz := range wrSizes {
				res = append(res, []string{wrS(pa), wrI(sz)})
			}
		}
	case "Chtimes":
		for _, pa := range pathsFor {
			res = append(res, []string{wrS(pa), "0", "0"}, []string{wrS(pa), "0", "4000000000001"}, []string{wrS(pa), "3000000000000", "0"})
		}
	case "Chmod", "Mkdir", "MkdirAll":
		for _, pa := range append(pathsFor, "/tmp/a") {
			for _, mo := range []int{0, 0o644, 0o777, 0o7777} {
				res = append(res, []string{wrS(pa), wrI(mo)})
			}
		}
	case "OpenFile":
		flags := []int{0}
		flags = append(flags, wrFlagBits...)
		flags = append(flags, os.O_CREATE|os.O_EXCL, os.O_TRUNC|os.O_SYNC, os.O_APPEND|os.O_TRUNC, os.O_RDWR|os.O_TRUNC, 0x80000, -1)
		for _, pa := range []string{"/tmp/f1", "/tmp/d1/f2", "/tmp/newfile", "/tmp/d1"} {
			for _, fl := range flags {
				res = append(res, []string{wrS(pa), wrI(fl), "420"})
			}
		}
	case "Sub":
		for _, pa := range []string{"/", "/tmp", "/tmp/", ".", "", "/tmp/d1", "/tmp/../tmp", "/tmp/f1", "/tmp/l2"} {
			res = append(res, []string{wrS(pa)})
		}
	case "Open", "Create", "Remove", "RemoveAll", "WriteFile", "Symlink", "Link", "Rename":
		// path boundaries
		for _, pa := range []string{"/tmp/f1", "/tmp/d1", "/tmp/nope", "", "/tmp/f1/", "/tmp/l1"} {
			switch m {
			case "WriteFile":
				res = append(res, []string{wrS(pa), wrS(""), "420"}, []string{wrS(pa), wrS("Q"), "0"})
			case "Symlink", "Link", "Rename":
				if pa != "" {
					res = append(res, []string{wrS(pa), wrS("/tmp/a")}, []string{wrS("/tmp/d1/f2"), wrS(pa)})
				}
			case "Remove", "RemoveAll":
				if pa != "" {
					res = append(res, []string{wrS(pa)})
				}
			default:
				res = append(res, []string{wrS(pa)})
			}
		}
	}
	return res
}

var wrHeavyV = []string{"OpenFile", "OpenFile", "Open", "Open", "Sub", "WriteFile", "Mkdir", "Remove", "Rename", "Create", "Chmod",
	"Stat", "ReadFile", "ReadDir", "Glob", "CreateTemp", "MkdirTemp", "Truncate", "Symlink", "Link", "Chdir", "SetUserByName"}

// genOp picks the next op given the objects bound so far.
func (w *wrWorld) genOp(r *rng, nextBind *int) wrOp {
	ids := make([]int, 0, len(w.objs))
	for id := range w.objs {
		ids = append(ids, id)
	}
	sort.Ints(ids)
	id := 0
	if len(ids) > 1 && r.chance(1, 2) {
		id = ids[r.intn(len(ids))]
	}
	o := w.objs[id]
	var m string
	if o.isFile {
		m = wrFileMethods[r.intn(len(wrFileMethods))]
	} else if r.chance(1, 2) {
		m = r.pick(wrHeavyV)
	} else {
		m = wrVFSMethods[r.intn(len(wrVFSMethods))]
	}
	if m == "RemoveAll" && !o.isFile {
		// as a non-administrator MemFS.RemoveAll removes children in map order until the first one it
		// may not remove: the resulting tree is not a function of the history, a twin cannot follow it
		if u := w.B.User(); wrIsNil(u) || !u.IsAdmin() {
			m = "Remove"
		}
	}
	*nextBind++
	return wrOp{obj: id, file: o.isFile, m: m, bind: *nextBind, args: wrAbsify(w.baseKind, o.isFile, m, wrGenArgs(r, o.isFile, m))}
}

// sweep: every method once on the wrapper, every File method on a file and on a directory it
// opened, then a sub file system and writes through everything that was handed out.
func wrSweepOps(baseKind string) []wrOp {
	var ops []wrOp
	r := &rng{s: 99}
	bind := 100
	for _, m := range wrVFSMethods {
		a := wrGenArgs(r, false, m)
		switch m {
		case "Open":
			a = []string{wrS("/tmp/f1")}
		case "OpenFile":
			a = []string{wrS("/tmp/f1"), "0", "0"}
		case "Sub":
			a = []string{wrS("/tmp")}
		case "Create":
			a = []string{wrS("/tmp/b")}
		}
		bind++
		ops = append(ops, wrOp{obj: 0, m: m, bind: bind, args: wrAbsify(baseKind, false, m, a)})
	}
	ops = append(ops, wrOp{obj: 0, m: "SetFailFunc", bind: 99})
	ops = append(ops, wrOp{obj: 0, m: "Open", bind: 1, args: []string{wrS("/tmp/f1")}}, wrOp{obj: 0, m: "Open", bind: 2, args: []string{wrS("/tmp")}},
		wrOp{obj: 0, m: "Sub", bind: 3, args: []string{wrS("/tmp")}}, wrOp{obj: 0, m: "CreateTemp", bind: 4, args: []string{wrS("/tmp"), wrS("vt.*.z")}},
		wrOp{obj: 0, m: "OpenFile", bind: 5, args: []string{wrS("/tmp/f1"), wrI(os.O_RDWR), "0"}},
		wrOp{obj: 0, m: "Create", bind: 6, args: []string{wrS("/tmp/b")}})
	for _, fid := range []int{1, 2, 4, 5, 6} {
		for _, m := range wrFileMethods {
			if m == "Close" {
				continue
			}
			bind++
			ops = append(ops, wrOp{obj: fid, file: true, m: m, bind: bind, args: wrGenArgs(r, true, m)})
		}
	}
	for _, m := range []string{"WriteFile", "Mkdir", "Remove", "Chmod", "Stat", "ReadFile", "Create", "Open", "Sub", "Rename", "Symlink", "Truncate"} {
		bind++
		a := wrGenArgs(r, false, m)
		switch m {
		case "WriteFile":
			a = []string{wrS("/f1"), wrS("SUB"), "420"}
		case "Remove", "Stat", "ReadFile":
			a = []string{wrS("/f2")}
		case "Open":
			a = []string{wrS("/f1")}
			ops = append(ops, wrOp{obj: 3, m: m, bind: 7, args: a})
			continue
		case "Sub":
			a = []string{wrS("/d1")}
			ops = append(ops, wrOp{obj: 3, m: m, bind: 8, args: a})
			continue
		}
		ops = append(ops, wrOp{obj: 3, m: m, bind: bind, args: a})
	}
	for _, m := range []string{"Write", "Truncate", "Chmod", "Read", "Stat", "Close"} {
		bind++
		ops = append(ops, wrOp{obj: 7, file: true, m: m, bind: bind, args: wrGenArgs(r, true, m)})
	}
	ops = append(ops, wrOp{obj: 8, m: "WriteFile", bind: bind + 1, args: []string{wrS("/zz"), wrS("x"), "420"}},
		wrOp{obj: 8, m: "Mkdir", bind: bind + 2, args: []string{wrS("/b"), "493"}})
	for _, fid := range []int{1, 2, 4, 5, 6} {
		ops = append(ops, wrOp{obj: fid, file: true, m: "Close", bind: bind + 3})
		// every File method on the CLOSED handle (Close included)
		for _, m := range wrFileMethods {
			ops = append(ops, wrOp{obj: fid, file: true, m: m, bind: bind + 4, args: wrGenArgs(r, true, m)})
		}
	}
	return ops
}

// the composites on existing entries (so that every inner primitive is reached and, under the
// fault plans, failed once)
func wrCompositeOps() []wrOp {
	return []wrOp{
		{obj: 0, m: "ReadFile", bind: 301, args: []string{wrS("/tmp/f1")}},
		{obj: 0, m: "ReadDir", bind: 302, args: []string{wrS("/tmp")}},
		{obj: 0, m: "Glob", bind: 303, args: []string{wrS("/tmp/*")}},
		{obj: 0, m: "Glob", bind: 304, args: []string{wrS("/tmp/*/f2")}},
		{obj: 0, m: "Glob", bind: 305, args: []string{wrS("/tmp/f1")}},
		{obj: 0, m: "WriteFile", bind: 306, args: []string{wrS("/tmp/b"), wrS("DATA"), "420"}},
		{obj: 0, m: "Create", bind: 307, args: []string{wrS("/tmp/a")}},
		{obj: 307, file: true, m: "Write", bind: 308, args: []string{wrS("xy")}},
		{obj: 307, file: true, m: "Close", bind: 309},
		{obj: 0, m: "MkdirTemp", bind: 310, args: []string{wrS("/tmp"), wrS("vt.*.z")}},
		{obj: 0, m: "MkdirTemp", bind: 311, args: []string{wrS("/tmp/nope"), wrS("vt.*.z")}},
		{obj: 0, m: "CreateTemp", bind: 312, args: []string{wrS("/tmp/d1"), wrS("vt.*.z")}},
		{obj: 312, file: true, m: "Write", bind: 313, args: []string{wrS("T")}},
		{obj: 312, file: true, m: "Close", bind: 314},
		{obj: 0, m: "ReadFile", bind: 315, args: []string{wrS("/tmp/b")}},
		{obj: 0, m: "Sub", bind: 316, args: []string{wrS("/tmp")}},
		{obj: 316, m: "WriteFile", bind: 317, args: []string{wrS("/f2"), wrS("S"), "420"}},
		{obj: 316, m: "ReadFile", bind: 318, args: []string{wrS("/f2")}},
	}
}

var wrFileSizes = []int{0, 1, 511, 512, 513, 1025}

func wrSizedData(n int) []byte {
	b := make([]byte, n)
	for i := range b {
		b[i] = byte('a' + (i*7+n)%26)
	}
	return b
}

// wrSizeOps: the composites over files of 0, 1, 511, 512, 513 and 1025 bytes (tree seed 0 holds them
// under /tmp/sz). avfs.ReadFile sizes its buffer from File.Stat (at least 512 bytes) and must grow it when
// Stat did not tell the size - which is what the plans failing FnFileStat make happen.
func wrSizeOps() []wrOp {
	var ops []wrOp
	bind := 400
	for _, n := range wrFileSizes {
		bind++
		ops = append(ops, wrOp{obj: 0, m: "ReadFile", bind: bind, args: []string{wrS(fmt.Sprintf("/tmp/sz/s%d", n))}})
	}
	ops = append(ops,
		wrOp{obj: 0, m: "WriteFile", bind: 420, args: []string{wrS("/tmp/sz/w513"), wrS(string(wrSizedData(513))), "420"}},
		wrOp{obj: 0, m: "ReadFile", bind: 421, args: []string{wrS("/tmp/sz/w513")}},
		wrOp{obj: 0, m: "WriteFile", bind: 422, args: []string{wrS("/tmp/sz/w0"), wrS(""), "420"}},
		wrOp{obj: 0, m: "ReadFile", bind: 423, args: []string{wrS("/tmp/sz/w0")}},
		wrOp{obj: 0, m: "ReadDir", bind: 424, args: []string{wrS("/tmp/sz")}},
		wrOp{obj: 0, m: "Glob", bind: 425, args: []string{wrS("/tmp/sz/s5*")}},
		wrOp{obj: 0, m: "WalkDir", bind: 426, args: []string{wrS("/tmp/sz")}},
		wrOp{obj: 0, m: "Sub", bind: 427, args: []string{wrS("/tmp/sz")}},
		wrOp{obj: 427, m: "ReadFile", bind: 428, args: []string{wrS("/s1025")}},
		wrOp{obj: 0, m: "Open", bind: 429, args: []string{wrS("/tmp/sz/s1025")}},
		wrOp{obj: 429, file: true, m: "Read", bind: 430, args: []string{"600"}},
		wrOp{obj: 429, file: true, m: "Read", bind: 431, args: []string{"600"}},
		wrOp{obj: 429, file: true, m: "Read", bind: 432, args: []string{"0"}},
		wrOp{obj: 429, file: true, m: "Close", bind: 433})
	return ops
}

// wrFocusOps: a history concentrating on one method (V.Name / F.Name).
func wrFocusOps(baseKind, fm string, seed uint64) []wrOp {
	r := &rng{s: seed*31 + 7}
	file := strings.HasPrefix(fm, "F.")
	m := fm[2:]
	ops := []wrOp{{obj: 0, m: "Open", bind: 1, args: []string{wrS("/tmp/f1")}}, {obj: 0, m: "Open", bind: 2, args: []string{wrS("/tmp")}},
		{obj: 0, m: "Sub", bind: 3, args: []string{wrS("/tmp")}}, {obj: 0, m: "OpenFile", bind: 4, args: []string{wrS("/tmp/d1/f2"), wrI(os.O_RDWR), "0"}},
		{obj: 0, m: "Create", bind: 5, args: []string{wrS("/tmp/b")}}, {obj: 0, m: "CreateTemp", bind: 6, args: []string{wrS("/tmp"), wrS("vt.*.z")}},
		{obj: 3, m: "Open", bind: 7, args: []string{wrS("/f1")}}}
	// 8: a handle that is already closed, 9: a directory handle obtained through the sub file system
	ops = append(ops, wrOp{obj: 0, m: "Open", bind: 8, args: []string{wrS("/tmp/d1/f2")}}, wrOp{obj: 8, file: true, m: "Close", bind: 0},
		wrOp{obj: 3, m: "Open", bind: 9, args: []string{wrS("/d1")}})
	bind := 20
	targets := []int{0, 3}
	if file {
		targets = []int{1, 2, 4, 5, 6, 7, 8, 9}
	}
	bounds := wrBoundaryArgs(file, m)
	if seed%2 == 1 { // odd repetitions: boundaries on a rotating subset of targets, then random
		targets = targets[int(seed/2)%len(targets):]
	}
	for _, a := range bounds {
		for _, id := range targets {
			bind++
			ops = append(ops, wrOp{obj: id, file: file, m: m, bind: bind, args: wrAbsify(baseKind, file, m, append([]string(nil), a...))})
			if !file && (m == "Open" || m == "OpenFile" || m == "Create") {
				ops = append(ops, wrOp{obj: bind, file: true, m: "Write", bind: 0, args: []string{wrS("Z")}},
					wrOp{obj: bind, file: true, m: "Close", bind: 0})
			}
			if !file && m == "Sub" {
				ops = append(ops, wrOp{obj: bind, m: "WriteFile", bind: 0, args: []string{wrS("/tmp/zz"), wrS("x"), "420"}},
					wrOp{obj: bind, m: "Mkdir", bind: 0, args: []string{wrS("/zd"), "493"}})
			}
		}
	}
	for i := 0; i < 30; i++ {
		bind++
		var id int
		if file {
			id = []int{1, 2, 4, 5, 6, 7, 8, 9}[r.intn(8)]
		} else {
			id = []int{0, 0, 3}[r.intn(3)]
		}
		ops = append(ops, wrOp{obj: id, file: file, m: m, bind: bind, args: wrAbsify(baseKind, file, m, wrGenArgs(r, file, m))})
		if !file && (m == "Open" || m == "OpenFile" || m == "Create" || m == "CreateTemp") {
			ops = append(ops, wrOp{obj: bind, file: true, m: "Write", bind: 0, args: []string{wrS("Z")}},
				wrOp{obj: bind, file: true, m: "Truncate", bind: 0, args: []string{"0"}})
		}
		if !file && m == "Sub" {
			ops = append(ops, wrOp{obj: bind, m: "WriteFile", bind: 0, args: []string{wrS("/zz"), wrS("x"), "420"}},
				wrOp{obj: bind, m: "Remove", bind: 0, args: []string{wrS("/f1")}})
		}
	}
	return ops
}

// flag sweep: OpenFile with every combination of the seven flag bits on an existing and on a missing name
func wrFlagSweepOps() []wrOp {
	var ops []wrOp
	bind := 200
	for c := 0; c < 1<<len(wrFlagBits); c++ {
		fl := 0
		for i, b := range wrFlagBits {
			if c&(1<<i) != 0 {
				fl |= b
			}
		}
		for _, name := range []string{"/tmp/f1", "/tmp/newfile"} {
			bind++
			ops = append(ops, wrOp{obj: 0, m: "OpenFile", bind: bind, args: []string{wrS(name), wrI(fl), "420"}})
			if c%5 == 0 {
				ops = append(ops, wrOp{obj: bind, file: true, m: "Write", bind: 0, args: []string{wrS("W")}})
			}
			ops = append(ops, wrOp{obj: bind, file: true, m: "Close", bind: 0})
		}
	}
	return ops
}

type wrRun struct {
	caseLine, obsLine string
	counts            map[string]int
	hang              bool
}

// runHistory executes ops (pre-built or generated on the fly when gen != nil).
// wrCallTimeout: a call through the wrapper that has not returned after this long is a HANG.
const wrCallTimeout = 3 * time.Second

func wrRunHistory(kind, baseKind string, treeSeed uint64, plan string, ops []wrOp, gen *rng, n int, cover map[string]int) (res wrRun, performed []wrOp) {
	// The history runs in its own goroutine and reports after every call; the watchdog below
	// allows wrCallTimeout per call (set-up included), not per history.
	var mu sync.Mutex
	head := fmt.Sprintf("%s %s %d %s", kind, baseKind, treeSeed, plan)
	cs, os_ := []string{head}, []string{"ok"}
	var perf []wrOp
	var current *wrOp
	var counts map[string]int
	done := make(chan struct{})
	progress := make(chan struct{}, 1)
	go func() {
		defer close(done)
		// per-run coverage: merged only when the run completes (the map is not shared with a hung goroutine)
		cov := map[string]int{}
		w := wrNewWorld(kind, baseKind, treeSeed, plan)
		nextBind := 10
		for i := 0; ; i++ {
			var op wrOp
			if gen != nil {
				if i >= n {
					break
				}
				op = w.genOp(gen, &nextBind)
			} else {
				if i >= len(ops) {
					break
				}
				op = ops[i]
			}
			mu.Lock()
			perf = append(perf, op)
			current = &op
			mu.Unlock()
			c, o := w.step(op, cov)
			mu.Lock()
			current = nil
			cs = append(cs, c)
			os_ = append(os_, o)
			mu.Unlock()
			select {
			case progress <- struct{}{}:
			default:
			}
		}
		mu.Lock()
		counts = w.counts
		for k, v := range cov {
			cover[k] += v
		}
		mu.Unlock()
	}()
	timer := time.NewTimer(wrCallTimeout)
	defer timer.Stop()
	for {
		select {
		case <-done:
			mu.Lock()
			defer mu.Unlock()
			return wrRun{caseLine: strings.Join(cs, " | "), obsLine: strings.Join(os_, " | "), counts: counts}, perf
		case <-progress:
			if !timer.Stop() {
				select {
				case <-timer.C:
				default:
				}
			}
			timer.Reset(wrCallTimeout)
		case <-timer.C:
			// a call did not return. Which one? Does the bare base hang on the same history (then it is
			// the base's defect, reported by another property)?
			mu.Lock()
			ops2 := append([]wrOp(nil), perf...)
			cs2, os2 := append([]string(nil), cs...), append([]string(nil), os_...)
			hung := current
			mu.Unlock()
			if hung != nil {
				cs2 = append(cs2, hung.String())
				os2 = append(os2, fmt.Sprintf("HANG (the call did not return within %v)", wrCallTimeout))
			} else {
				os2 = append(os2, "HANG")
			}
			obs := strings.Join(os2, " | ")
			if wrBaseHangs(baseKind, treeSeed, ops2) {
				obs = "BASE-HANG"
			}
			return wrRun{caseLine: strings.Join(cs2, " | "), obsLine: obs, counts: map[string]int{}, hang: obs != "BASE-HANG"}, ops2
		}
	}
}

// wrBaseHangs replays the history on a bare base (no wrapper, no proxy): true when that hangs too.
func wrBaseHangs(baseKind string, treeSeed uint64, ops []wrOp) bool {
	done := make(chan struct{})
	go func() {
		defer close(done)
		b := wrNewBase(baseKind)
		wrPopulate(b, treeSeed, baseKind)
		env := &wrEnv{raw: b, idms: []avfs.IdentityMgr{memidm.New()}}
		objs := map[int]any{0: b}
		for _, op := range ops {
			o := objs[op.obj]
			if o == nil {
				continue
			}
			if _, obj, ok := wrExec(env, o, op.file, op.m, op.args); ok && obj != nil {
				objs[op.bind] = obj
			}
		}
	}()
	select {
	case <-done:
		return false
	case <-time.After(wrCallTimeout + time.Second):
		return true
	}
}

func runWrap(cfg config, kind string) {
	o := newOut(cfg.dir, cfg.name)
	cover := map[string]int{}
	var basehangs []string
	hangs := 0
	// after two calls that never returned the run stops: the hung goroutines cannot be killed
	// (a spinning one keeps a CPU busy), and two witnesses are enough
	stopped := func() bool { return hangs >= 2 }
	emit := func(r wrRun) {
		if r.hang {
			hangs++
			o.count("outcome:HANG")
		}
		if r.obsLine == "BASE-HANG" {
			// the bare base hangs on this history (a defect of the base, another property's business)
			o.count("skipped:base-hangs-when-driven-directly")
			basehangs = append(basehangs, r.caseLine)
			return
		}
		key := ""
		if !strings.Contains(r.obsLine, "HANG") {
			s := md5.Sum([]byte(r.obsLine))
			key = hex.EncodeToString(s[:8])
		}
		o.emit(r.caseLine, r.obsLine, key)
		for _, part := range strings.Split(r.obsLine, " | ") {
			switch {
			case strings.Contains(part, "PROPFAIL"):
				o.count("outcome:PROPFAIL")
			case strings.Contains(part, "!J"):
				o.count("outcome:injected")
			case strings.Contains(part, "!E13") || strings.Contains(part, "!E1@"):
				o.count("outcome:permission-error")
			case strings.Contains(part, "!-@"):
				o.count("outcome:ok")
			default:
				o.count("outcome:other-error")
			}
		}
	}
	if lines := cfg.replayLines(); lines != nil {
		for _, l := range lines {
			parts := strings.Split(l, " | ")
			h := strings.Fields(parts[0])
			if len(h) != 4 {
				o.emit(l, "BADLINE", "")
				continue
			}
			seed, _ := strconv.ParseUint(h[2], 10, 64)
			var ops []wrOp
			for _, p := range parts[1:] {
				if op, ok := wrParseOp(p); ok {
					ops = append(ops, op)
				}
			}
			r, _ := wrRunHistory(h[0], h[1], seed, h[3], ops, nil, 0, cover)
			emit(r)
		}
		o.close(cfg.name)
		return
	}
	if focus := os.Getenv("VERIF_WRAP_FOCUS"); focus != "" {
		// focused search after a broken table obligation: the offending methods, many argument
		// choices, on the wrapper and on every kind of object it hands out
		for _, baseKind := range []string{"mem", "orefa"} {
			for _, fm := range strings.Split(focus, ",") {
				for rep := 0; rep < 6 && !stopped(); rep++ {
					fops := wrFocusOps(baseKind, fm, uint64(rep))
					rr, _ := wrRunHistory(kind, baseKind, uint64(2+rep), "none", fops, nil, 0, cover)
					emit(rr)
					o.count("history:focus:" + fm)
					if kind == "failfs" {
						rr, _ := wrRunHistory(kind, baseKind, uint64(2+rep), "ro", fops, nil, 0, cover)
						emit(rr)
						// ... and with the method's own id failed at its first invocations
						if fn := wrExpectedFn(strings.HasPrefix(fm, "F."), fm[2:]); fn != "" && rep < 2 {
							for k := 0; k < 6 && !stopped(); k++ {
								rr, _ := wrRunHistory(kind, baseKind, uint64(2+rep), fmt.Sprintf("%s:%d", fn, k), fops, nil, 0, cover)
								emit(rr)
							}
						}
					}
				}
			}
		}
		o.rule = "focused search: histories that call the methods " + focus + " with many arguments on the wrapper, on files it opened and on sub file systems it returned"
		o.close(cfg.name)
		return
	}
	nhist, hlen := 1500, 30
	if cfg.tier == "thorough" {
		nhist, hlen = 12000, 45
	}
	if kind == "failfs" {
		nhist = nhist / 20 // every history is re-run under each of its single-fault plans
	}
	r := &rng{s: cfg.seed*7919 + 3}
	plans := 0
	runPlans := func(baseKind string, treeSeed uint64, ops []wrOp, counts map[string]int) {
		if kind != "failfs" || stopped() {
			return
		}
		rr, _ := wrRunHistory(kind, baseKind, treeSeed, "ro", ops, nil, 0, cover)
		emit(rr)
		fns := make([]string, 0, len(counts))
		for fn := range counts {
			fns = append(fns, fn)
		}
		sort.Strings(fns)
		for _, fn := range fns {
			for k := 0; k < counts[fn] && !stopped(); k++ {
				rr, _ := wrRunHistory(kind, baseKind, treeSeed, fmt.Sprintf("%s:%d", fn, k), ops, nil, 0, cover)
				emit(rr)
				plans++
				o.count("plan:" + fn)
			}
		}
		// a few two-fault plans
		for j := 0; j < 3 && len(fns) > 1 && !stopped(); j++ {
			a, b := fns[r.intn(len(fns))], fns[r.intn(len(fns))]
			rr, _ := wrRunHistory(kind, baseKind, treeSeed, fmt.Sprintf("%s:%d,%s:%d", a, r.intn(counts[a]), b, r.intn(counts[b])), ops, nil, 0, cover)
			emit(rr)
			plans++
		}
	}
	for _, baseKind := range []string{"mem", "orefa"} {
		// systematic histories first
		for _, ops := range [][]wrOp{wrSweepOps(baseKind), wrFlagSweepOps(), wrCompositeOps()} {
			if stopped() {
				break
			}
			rr, _ := wrRunHistory(kind, baseKind, 1, "none", ops, nil, 0, cover)
			emit(rr)
			o.count("history:systematic")
			if len(ops) < 150 || cfg.tier == "thorough" { // the long sweeps get their fault plans in the thorough tier
				runPlans(baseKind, 1, ops, rr.counts)
			}
		}
		if !stopped() {
			ops := wrSizeOps()
			rr, _ := wrRunHistory(kind, baseKind, 0, "none", ops, nil, 0, cover)
			emit(rr)
			o.count("history:systematic")
			runPlans(baseKind, 0, ops, rr.counts)
		}
		for i := 0; i < nhist && !stopped(); i++ {
			treeSeed := r.next()%100000 + 2
			g := &rng{s: r.next()}
			rr, ops := wrRunHistory(kind, baseKind, treeSeed, "none", nil, g, 8+r.intn(hlen), cover)
			emit(rr)
			o.count("history:random")
			o.count(fmt.Sprintf("history-length:%02d-%02d", len(ops)/10*10, len(ops)/10*10+9))
			runPlans(baseKind, treeSeed, ops, rr.counts)
		}
	}
	for k, v := range cover {
		o.dist["method:"+k] = v
	}
	ncalls := 0
	for _, v := range cover {
		ncalls += v
	}
	o.extra["calls"] = ncalls
	o.extra["methods_exercised"] = len(cover)
	if len(basehangs) > 3 {
		basehangs = basehangs[:3]
	}
	o.extra["base_hangs_skipped"] = basehangs
	o.extra["fault_plans"] = plans
	o.extra["hangs"] = hangs
	o.extra["stopped_after_hangs"] = stopped()
	o.rule = "one line = one history of calls through " + kind + " over a MemFS/OrefaFS base with a seeded random tree (first two per base: a sweep of every VFS and File method incl. handed-out files and sub file systems, and OpenFile with all 2^7 flag combinations); " +
		"observed per call: answer, consulted FnVFS ids, calls that reached the base (recording proxy), full base snapshot before/after; distinct = distinct observed lines" +
		map[string]string{"rofs": "", "failfs": "; every history is re-run under the read-only plan and under EVERY single-fault plan (k-th invocation of F, for every F consulted and every k below its count in the fault-free run) plus three two-fault plans"}[kind]
	o.close(cfg.name)
}
