package main

// The file-system world stream: histories of namespace / handle / view calls executed on
// MemFS (built from /repo) and, by ml/drv_fs.ml, on the extracted Coq world model.
// case line:     memfs linux <umask> <snapmode> | op | op ...
// observed line: <result> #<snapshot digest> | ...

import (
	"crypto/md5"
	"encoding/hex"
	"errors"
	"fmt"
	"io"
	"io/fs"
	"os"
	"path"
	"sort"
	"strconv"
	"strings"
	"syscall"
	"time"

	"github.com/avfs/avfs"
	"github.com/avfs/avfs/vfs/memfs"
)

func init() { commands["fs"] = runFS }

// ---- identities ------------------------------------------------------------
type huser struct {
	uid, gid int
	admin    bool
}

func (u huser) Name() string  { return fmt.Sprintf("u%d", u.uid) }
func (u huser) Uid() int      { return u.uid }
func (u huser) Gid() int      { return u.gid }
func (u huser) IsAdmin() bool { return u.admin }

// ---- the world ---------------------------------------------------------------
type fsWorld struct {
	base    avfs.VFS // administrator's view of the root, never used by a generated call
	views   []avfs.VFS
	handles []avfs.File
	hview   []int
	hdir    []bool // handle opened on a directory (generator bias only)
}

func newFSWorld(fsname, osname string, umask int) *fsWorld {
	if fsname == "orefafs" {
		return newOrefaWorld(osname, umask) // orefa.go
	}
	if fsname != "memfs" || osname != "linux" {
		panic("unsupported fs/os " + fsname + "/" + osname)
	}
	avfs.SetUMask(fs.FileMode(umask))
	b := memfs.New()
	v0, err := b.Sub("/")
	if err != nil {
		panic(err)
	}
	return &fsWorld{base: b, views: []avfs.VFS{v0}}
}

const customErrorBase = 2 << 30

func errCode(err error) string {
	if err == nil {
		return "nil"
	}
	var pe *fs.PathError
	var le *os.LinkError
	var se *os.SyscallError
	if errors.As(err, &pe) {
		err = pe.Err
	} else if errors.As(err, &le) {
		err = le.Err
	} else if errors.As(err, &se) {
		err = se.Err
	}
	switch e := err.(type) {
	case avfs.LinuxError:
		return fmt.Sprintf("L%d", uintptr(e))
	case avfs.WindowsError:
		return fmt.Sprintf("W%d", uintptr(e))
	case avfs.CustomError:
		return fmt.Sprintf("C%d", uintptr(e)-customErrorBase)
	case syscall.Errno:
		return fmt.Sprintf("L%d", uintptr(e))
	}
	switch err {
	case fs.ErrClosed:
		return "Gclosed"
	case fs.ErrInvalid:
		return "Ginvalid"
	case io.EOF:
		return "Geof"
	}
	if err.Error() == "EvalSymlinks: too many links" {
		return "Gtoomany"
	}
	return "X" + tok(fmt.Sprintf("%T:%v", err, err))
}

func errPath(err error) string {
	var pe *fs.PathError
	if errors.As(err, &pe) {
		return pe.Path
	}
	return "?"
}

// projMode: print only what is observable on every file system (directory sizes and link counts, and the
// link count of a symbolic link, are file-system specific): used by the oracle streams.
var projMode bool

func showInfo(vfs avfs.VFS, info fs.FileInfo) string {
	st := vfs.ToSysStat(info)
	if projMode {
		switch {
		case info.IsDir():
			return fmt.Sprintf("%s:-:%d:%d:%d:-", tok(info.Name()), uint32(info.Mode()), st.Uid(), st.Gid())
		case info.Mode()&fs.ModeSymlink != 0:
			return fmt.Sprintf("%s:%d:%d:%d:%d:-", tok(info.Name()), info.Size(), uint32(info.Mode()), st.Uid(), st.Gid())
		}
	}
	return fmt.Sprintf("%s:%d:%d:%d:%d:%d", tok(info.Name()), info.Size(), uint32(info.Mode()), st.Uid(), st.Gid(), st.Nlink())
}

func (w *fsWorld) view(tokn string) (avfs.VFS, int, bool) {
	i, _ := strconv.Atoi(tokn)
	if i < 0 || i >= len(w.views) {
		return nil, i, false
	}
	return w.views[i], i, true
}

func atoi(s string) int { i, _ := strconv.Atoi(s); return i }
func atoi64(s string) int64 {
	i, _ := strconv.ParseInt(s, 10, 64)
	return i
}

func resErr(err error) string {
	if err == nil {
		return "ok"
	}
	return "E " + errCode(err)
}

// apply executes one op (tokens) and renders its result.
func (w *fsWorld) apply(t []string) string {
	if len(t) == 0 {
		return "BADOP"
	}
	if t[0][0] == 'f' {
		return w.applyHandle(t)
	}
	v, vi, ok := w.view(t[1])
	if !ok {
		return "E FUEL"
	}
	switch t[0] {
	case "MK":
		return resErr(v.Mkdir(untok(t[2]), fs.FileMode(atoi64(t[3]))))
	case "MA":
		err := v.MkdirAll(untok(t[2]), fs.FileMode(atoi64(t[3])))
		if err != nil {
			if projMode {
				return "E " + errCode(err)
			}
			return "EP " + errCode(err) + " " + tok(errPath(err))
		}
		return "ok"
	case "OP":
		f, err := v.OpenFile(untok(t[2]), atoi(t[3]), fs.FileMode(atoi64(t[4])))
		if err != nil {
			return "E " + errCode(err)
		}
		w.handles = append(w.handles, f)
		w.hview = append(w.hview, vi)
		isDir := false
		if info, err := f.Stat(); err == nil {
			isDir = info.IsDir()
		}
		w.hdir = append(w.hdir, isDir)
		return fmt.Sprintf("H %d", len(w.handles)-1)
	case "RM":
		return resErr(v.Remove(untok(t[2])))
	case "RA":
		return resErr(v.RemoveAll(untok(t[2])))
	case "RN":
		return resErr(v.Rename(untok(t[2]), untok(t[3])))
	case "LN":
		return resErr(v.Link(untok(t[2]), untok(t[3])))
	case "SL":
		return resErr(v.Symlink(untok(t[2]), untok(t[3])))
	case "RL":
		s, err := v.Readlink(untok(t[2]))
		if err != nil {
			return "E " + errCode(err)
		}
		return "S " + tok(s)
	case "TR":
		return resErr(v.Truncate(untok(t[2]), atoi64(t[3])))
	case "CM":
		return resErr(v.Chmod(untok(t[2]), fs.FileMode(atoi64(t[3]))))
	case "CO":
		return resErr(v.Chown(untok(t[2]), atoi(t[3]), atoi(t[4])))
	case "LC":
		return resErr(v.Lchown(untok(t[2]), atoi(t[3]), atoi(t[4])))
	case "CT":
		tm := time.Unix(1700000000, 0)
		return resErr(v.Chtimes(untok(t[2]), tm, tm))
	case "CD":
		return resErr(v.Chdir(untok(t[2])))
	case "WD":
		s, err := v.Getwd()
		if err != nil {
			return "E " + errCode(err)
		}
		return "S " + tok(s)
	case "ST", "LS":
		var info fs.FileInfo
		var err error
		if t[0] == "ST" {
			info, err = v.Stat(untok(t[2]))
		} else {
			info, err = v.Lstat(untok(t[2]))
		}
		if err != nil {
			return "E " + errCode(err)
		}
		return "I " + showInfo(v, info)
	case "ES":
		s, err := v.EvalSymlinks(untok(t[2]))
		if err != nil {
			if projMode {
				return "E " + errCode(err)
			}
			return "EP " + errCode(err) + " " + tok(errPath(err))
		}
		return "S " + tok(s)
	case "RD":
		des, err := v.ReadDir(untok(t[2]))
		if err != nil {
			return "E " + errCode(err)
		}
		return "IS " + showEntries(v, des) + " nil"
	case "RF":
		b, err := v.ReadFile(untok(t[2]))
		if err != nil {
			return "E " + errCode(err)
		}
		return fmt.Sprintf("B %d %s nil", len(b), tok(string(b)))
	case "WF":
		return resErr(v.WriteFile(untok(t[2]), []byte(untok(t[3])), fs.FileMode(atoi64(t[4]))))
	case "SB":
		s, err := v.Sub(untok(t[2]))
		if err != nil {
			return "E " + errCode(err)
		}
		w.views = append(w.views, s)
		return fmt.Sprintf("V %d", len(w.views)-1)
	case "SU":
		return resErr(v.SetUser(huser{uid: atoi(t[2]), gid: atoi(t[3]), admin: t[4] == "1"}))
	case "UM":
		return resErr(v.SetUMask(fs.FileMode(atoi64(t[2]))))
	}
	return "BADOP"
}

func showEntries(v avfs.VFS, des []fs.DirEntry) string {
	var parts []string
	for _, de := range des {
		if projMode {
			// names and types only (what getdents returns); Info() would need search permission on the directory
			parts = append(parts, fmt.Sprintf("%s:%d", tok(de.Name()), uint32(de.Type())))
			continue
		}
		info, err := de.Info()
		if err != nil {
			parts = append(parts, "ERR")
			continue
		}
		parts = append(parts, showInfo(v, info))
	}
	return strings.Join(parts, ",")
}

func (w *fsWorld) applyHandle(t []string) string {
	hi := atoi(t[1])
	if hi < 0 || hi >= len(w.handles) {
		return "E FUEL"
	}
	f := w.handles[hi]
	v := w.views[w.hview[hi]]
	oerr := func(err error) string { return errCode(err) }
	switch t[0] {
	case "fR":
		n := atoi(t[2])
		if n < 0 {
			n = 0
		}
		b := make([]byte, n)
		k, err := f.Read(b)
		if err != nil && err != io.EOF {
			return "E " + errCode(err)
		}
		return fmt.Sprintf("B %d %s %s", k, tok(string(b[:k])), oerr(err))
	case "fRA":
		n := atoi(t[2])
		if n < 0 {
			n = 0
		}
		b := make([]byte, n)
		k, err := f.ReadAt(b, atoi64(t[3]))
		if err != nil && err != io.EOF {
			return "E " + errCode(err)
		}
		return fmt.Sprintf("B %d %s %s", k, tok(string(b[:k])), oerr(err))
	case "fW":
		k, err := f.Write([]byte(untok(t[2])))
		if err != nil {
			return "E " + errCode(err)
		}
		return fmt.Sprintf("N %d", k)
	case "fWA":
		k, err := f.WriteAt([]byte(untok(t[2])), atoi64(t[3]))
		if err != nil {
			return "E " + errCode(err)
		}
		return fmt.Sprintf("N %d", k)
	case "fSK":
		k, err := f.Seek(atoi64(t[2]), atoi(t[3]))
		if err != nil {
			return "E " + errCode(err)
		}
		return fmt.Sprintf("N %d", k)
	case "fTR":
		return resErr(f.Truncate(atoi64(t[2])))
	case "fST":
		info, err := f.Stat()
		if err != nil {
			return "E " + errCode(err)
		}
		return "I " + showInfo(v, info)
	case "fSY":
		return resErr(f.Sync())
	case "fCM":
		return resErr(f.Chmod(fs.FileMode(atoi64(t[2]))))
	case "fCO":
		return resErr(f.Chown(atoi(t[2]), atoi(t[3])))
	case "fCD":
		return resErr(f.Chdir())
	case "fCL":
		return resErr(f.Close())
	case "fRD":
		des, err := f.ReadDir(atoi(t[2]))
		if err != nil && err != io.EOF {
			return "E " + errCode(err)
		}
		return "IS " + showEntries(v, des) + " " + oerr(err)
	case "fRN":
		names, err := f.Readdirnames(atoi(t[2]))
		if err != nil && err != io.EOF {
			return "E " + errCode(err)
		}
		ts := make([]string, len(names))
		for i, n := range names {
			ts[i] = tok(n)
		}
		return "NS " + strings.Join(ts, ",") + " " + oerr(err)
	}
	return "BADOP"
}

// applyGuarded runs apply in its own goroutine: a panic is recovered, a call that does not return
// within the time limit is reported as DEADLOCK (the world is unusable afterwards).
func (w *fsWorld) applyGuarded(t []string) string {
	ch := make(chan string, 1)
	go func() {
		defer func() {
			if r := recover(); r != nil {
				ch <- "PANIC"
			}
		}()
		ch <- w.apply(t)
	}()
	select {
	case r := <-ch:
		return r
	case <-time.After(3 * time.Second):
		return "DEADLOCK"
	}
}

// ---- snapshot through the administrator's view --------------------------------
// snapDepth: entries deeper than this are not listed (World.v: SNAP_DEPTH)
const snapDepth = 10

type snapEntry struct {
	path string
	kind byte // D F L
	line string
	info fs.FileInfo
}

// snapshotEntries walks the tree through the administrator's view. A call that returned but left a node lock held
// (a leak on an error path) would block this walk for ever: the walk runs under a watchdog and a blocked walk yields the
// single pseudo entry "!HANG", which no model snapshot contains - the call before it is then reported as a mismatch.
func (w *fsWorld) snapshotEntries() []snapEntry {
	ch := make(chan []snapEntry, 1)
	go func() {
		defer func() {
			if r := recover(); r != nil {
				ch <- []snapEntry{{path: "!PANIC", kind: 'F', line: "F !PANIC-in-snapshot"}}
			}
		}()
		ch <- w.snapshotEntriesRaw()
	}()
	select {
	case es := <-ch:
		return es
	case <-time.After(5 * time.Second):
		return []snapEntry{{path: "!HANG", kind: 'F', line: "F !HANG a lock is still held after the previous call returned"}}
	}
}

func (w *fsWorld) snapshotEntriesRaw() []snapEntry {
	var out []snapEntry
	var files []fs.FileInfo
	b := w.base
	var walk func(p string, info fs.FileInfo, depth int)
	walk = func(p string, info fs.FileInfo, depth int) {
		if depth > snapDepth { // a cyclic graph (possible after a defective rename): both sides stop here
			return
		}
		st := b.ToSysStat(info)
		switch {
		case info.IsDir():
			out = append(out, snapEntry{path: p, kind: 'D', info: info,
				line: fmt.Sprintf("D %s %d %d %d", tok(p), uint32(info.Mode()), st.Uid(), st.Gid())})
			des, err := b.ReadDir(p)
			if err != nil {
				out = append(out, snapEntry{path: p, kind: '!', line: "!readdir " + tok(p) + " " + errCode(err)})
				return
			}
			names := make([]string, 0, len(des))
			for _, de := range des {
				names = append(names, de.Name())
			}
			sort.Strings(names)
			for _, n := range names {
				cp := p + "/" + n
				if p == "/" {
					cp = "/" + n
				}
				ci, err := b.Lstat(cp)
				if err != nil {
					out = append(out, snapEntry{path: cp, kind: '!', line: "!lstat " + tok(cp) + " " + errCode(err)})
					continue
				}
				walk(cp, ci, depth+1)
			}
		case info.Mode()&fs.ModeSymlink != 0:
			t, err := b.Readlink(p)
			if err != nil {
				t = "!" + errCode(err)
			}
			out = append(out, snapEntry{path: p, kind: 'L', info: info,
				line: fmt.Sprintf("L %s %d %d %d %s", tok(p), uint32(info.Mode()), st.Uid(), st.Gid(), tok(t))})
		default:
			data, err := b.ReadFile(p)
			ds := tok(string(data))
			if err != nil {
				ds = "!" + errCode(err)
			}
			cls := -1
			for i, fi := range files {
				if b.SameFile(fi, info) {
					cls = i
					break
				}
			}
			if cls < 0 {
				files = append(files, info)
				cls = len(files) - 1
			}
			out = append(out, snapEntry{path: p, kind: 'F', info: info,
				line: fmt.Sprintf("F %s %d %d %d %d %d %s", tok(p), uint32(info.Mode()), st.Uid(), st.Gid(), st.Nlink(), cls, ds)})
		}
	}
	ri, err := b.Lstat("/")
	if err != nil {
		return []snapEntry{{path: "/", kind: '!', line: "!lstat-root " + errCode(err)}}
	}
	walk("/", ri, 0)
	return out
}

func snapText(es []snapEntry) string {
	var sb strings.Builder
	for _, e := range es {
		sb.WriteString(e.line)
		sb.WriteByte('\n')
	}
	return sb.String()
}

func showSnap(mode string, es []snapEntry) string {
	switch mode {
	case "none":
		return ""
	case "full":
		return " #" + strings.Join(strings.Split(snapText(es), "\n"), ";")
	}
	s := md5.Sum([]byte(snapText(es)))
	return " #" + hex.EncodeToString(s[:])
}

// runHistory executes a case line and returns the observed line.
func runFSHistory(line string) string {
	parts := strings.Split(line, " | ")
	hd := strings.Fields(parts[0])
	w := newFSWorld(hd[0], hd[1], atoi(hd[2]))
	mode := hd[3]
	var outs []string
	for _, o := range parts[1:] {
		r := w.applyGuarded(strings.Fields(o))
		if r == "DEADLOCK" || r == "PANIC" {
			outs = append(outs, r+showSnapSafe(mode, w, r))
			break
		}
		if raInterrupted(o, r) {
			outs = append(outs, r+" #?")
			break
		}
		outs = append(outs, r+showSnap(mode, w.snapshotEntries()))
	}
	return strings.Join(outs, " | ")
}

// RemoveAll interrupted by a permission failure has removed an unspecified part of the tree (Go map
// iteration order): the history ends there on both sides.
func raInterrupted(op, res string) bool {
	return strings.HasPrefix(op, "RA ") && (res == "E L13" || res == "E W5")
}

// after a deadlock or a panic the tree cannot be walked (node locks may still be held)
func showSnapSafe(mode string, w *fsWorld, r string) string {
	if mode == "none" {
		return ""
	}
	return " #-"
}

// ---- generator -----------------------------------------------------------------
// "ab" has "a" as a strict prefix: sibling names in a prefix relation exercise the string-prefix decisions of the
// walk (PathIterator.ReplacePart restart, rename-into-itself)
var fsNames = []string{"a", "b", "ab"}
var fsPerms = []uint32{0, 0o600, 0o644, 0o755, 0o777, 0o700, 0o750, 0o555, uint32(fs.ModeSticky) | 0o777, uint32(fs.ModeSetgid) | 0o755}
var fsData = []string{"", "x", "hello", "0123456789012345678901234567890123456789"}
var fsUsers = [][3]int{{0, 0, 1}, {1000, 1000, 0}, {1001, 1000, 0}, {1002, 1002, 0}}
var fsSpecial = []string{"/", "", ".", "..", "a", "./a", "/a/../b", "//a", "/a/", "a/b", "/..", "/./a", "/a/./b", "/a//b", "../a"}

type fsGen struct {
	r       *rng
	w       *fsWorld
	snap    []snapEntry
	admin   bool // keep view users administrators (C01 style) or mix identities (C03 style)
	nviews  int
	single  bool // one view, no handle kept open (OpenFile closes at once), no Sub
	clean   bool // lexically clean paths only (C01's oracle stream)
	noEval  bool // no EvalSymlinks
	links   int  // extra weight (0..3) of symbolic-link creating calls
	dac     bool // permission-centred stream: the administrator reshuffles owners and modes, other users act
	pending []string
}

var dacModes = []uint32{0, 0o700, 0o070, 0o007, 0o750, 0o755, 0o711, 0o555, 0o444, 0o222, 0o111, 0o666, 0o660, 0o600, 0o777, 0o775, 0o730,
	uint32(fs.ModeSticky) | 0o777, uint32(fs.ModeSticky) | 0o770, uint32(fs.ModeSetgid) | 0o775, uint32(fs.ModeSetuid) | 0o755, 0o577, 0o757, 0o775}

// cleanIf cleans a generated path when the stream demands clean paths ("" stays "")
func (g *fsGen) cleanIf(p string) string {
	if !g.clean || p == "" {
		return p
	}
	return path.Clean(p)
}

func (g *fsGen) existing(kind byte) string {
	var c []string
	for _, e := range g.snap {
		if kind == 0 || e.kind == kind {
			c = append(c, e.path)
		}
	}
	if len(c) == 0 {
		return "/"
	}
	return c[g.r.intn(len(c))]
}

func pjoin(d, n string) string {
	if d == "/" {
		return "/" + n
	}
	return d + "/" + n
}

func (g *fsGen) path() string { return g.cleanIf(g.rawPath()) }

func (g *fsGen) rawPath() string {
	r := g.r
	switch k := r.intn(22); {
	case k < 8:
		return g.existing(0)
	case k < 13:
		return pjoin(g.existing('D'), r.pick(fsNames))
	case k == 13:
		return pjoin(g.existing('F'), r.pick(fsNames))
	case k == 14:
		return pjoin(g.existing('L'), r.pick(fsNames))
	case k == 15:
		return "/" + r.pick(fsNames) + "/" + r.pick(fsNames) + "/" + r.pick(fsNames)
	case k == 16:
		return r.pick(fsSpecial)
	case k == 17:
		p := g.existing(0)
		switch r.intn(5) {
		case 0:
			return p + "/"
		case 1:
			return "/." + p
		case 2:
			return p + "/../" + r.pick(fsNames)
		case 3:
			return "/" + p
		default:
			return p + "/."
		}
	case k == 18:
		p := g.existing(0)
		if len(p) > 1 {
			return p[1:]
		}
		return r.pick(fsNames)
	case k == 19:
		return g.existing('L')
	default:
		return pjoin(g.existing('D'), r.pick(fsNames))
	}
}

func (g *fsGen) target() string { return g.cleanIf(g.rawTarget()) }

func (g *fsGen) rawTarget() string {
	r := g.r
	switch r.intn(10) {
	case 0, 1:
		return r.pick(fsNames)
	case 2:
		return "../" + r.pick(fsNames)
	case 3, 4:
		return g.existing(0)
	case 5:
		return "/" + r.pick(fsNames)
	case 6:
		return r.pick([]string{".", "..", "/", "", "a/../b", "/tmp/"})
	case 7:
		return r.pick(fsNames) + "/" + r.pick(fsNames)
	default:
		return g.path()
	}
}

func (g *fsGen) flag() int {
	r := g.r
	f := r.intn(3)
	if r.chance(1, 2) {
		f |= os.O_CREATE
	}
	if r.chance(1, 5) {
		f |= os.O_EXCL
	}
	if r.chance(1, 4) {
		f |= os.O_TRUNC
	}
	if r.chance(1, 4) {
		f |= os.O_APPEND
	}
	return f
}

func (g *fsGen) off() int64 {
	return int64(g.r.pick2([]int{-1, 0, 0, 1, 2, 3, 4, 5, 6, 7, 12, 39, 40, 41, 47}))
}

func (r *rng) pick2(xs []int) int { return xs[r.intn(len(xs))] }

// op produces the next call as tokens
func (g *fsGen) op() string {
	if len(g.pending) > 0 {
		o := g.pending[0]
		g.pending = g.pending[1:]
		return o
	}
	if g.dac && g.r.chance(1, 7) {
		// as the administrator give random owners, groups and modes to existing nodes, then act as a random
		// non-administrator user for the following calls
		r := g.r
		q := []string{"SU 0 0 0 1"}
		for k := 0; k < 2+r.intn(3); k++ {
			u := fsUsers[r.intn(len(fsUsers))]
			q = append(q, fmt.Sprintf("CO 0 %s %d %d", tok(g.cleanIf(g.existing(0))), u[0], u[1]))
			q = append(q, fmt.Sprintf("CM 0 %s %d", tok(g.cleanIf(g.existing(0))), dacModes[r.intn(len(dacModes))]))
		}
		u := fsUsers[1+r.intn(len(fsUsers)-1)]
		q = append(q, fmt.Sprintf("SU 0 %d %d 0", u[0], u[1]))
		g.pending = q[1:]
		return q[0]
	}
	r := g.r
	v := r.intn(g.nviews)
	vs := strconv.Itoa(v)
	perm := func() string { return strconv.FormatUint(uint64(fsPerms[r.intn(len(fsPerms))]), 10) }
	if g.links > 0 && r.intn(10) < g.links {
		return fmt.Sprintf("SL %s %s %s", vs, tok(g.target()), tok(g.path()))
	}
	if !g.single && len(g.w.handles) > 0 && r.chance(2, 5) {
		hi := r.intn(len(g.w.handles))
		h := strconv.Itoa(hi)
		if hi < len(g.w.hdir) && g.w.hdir[hi] && r.chance(3, 4) {
			// a directory handle: exercise the batched listing (the two methods share one cursor), interleaved with
			// changes of the directory made by the other calls
			switch r.intn(8) {
			case 0, 1, 2:
				return fmt.Sprintf("fRD %s %d", h, r.pick2([]int{1, 1, 2, 3, -1, 0, 100}))
			case 3, 4, 5:
				return fmt.Sprintf("fRN %s %d", h, r.pick2([]int{1, 1, 2, 3, -1, 0, 100}))
			case 6:
				return "fST " + h
			default:
				return fmt.Sprintf("fSK %s %d %d", h, g.off(), r.pick2([]int{0, 1, 2}))
			}
		}
		switch k := r.intn(30); {
		case k < 4:
			return fmt.Sprintf("fR %s %d", h, r.pick2([]int{0, 1, 2, 3, 5, 64}))
		case k < 7:
			return fmt.Sprintf("fRA %s %d %d", h, r.pick2([]int{0, 1, 3, 64}), g.off())
		case k < 12:
			return fmt.Sprintf("fW %s %s", h, tok(r.pick(fsData)))
		case k < 15:
			return fmt.Sprintf("fWA %s %s %d", h, tok(r.pick(fsData)), g.off())
		case k < 19:
			return fmt.Sprintf("fSK %s %d %d", h, g.off(), r.pick2([]int{0, 0, 1, 1, 2, 2, -1, 5}))
		case k < 21:
			return fmt.Sprintf("fTR %s %d", h, g.off())
		case k < 23:
			return "fST " + h
		case k == 23:
			return "fSY " + h
		case k == 24:
			return fmt.Sprintf("fCM %s %s", h, perm())
		case k == 25:
			u := fsUsers[r.intn(len(fsUsers))]
			return fmt.Sprintf("fCO %s %d %d", h, u[0], u[1])
		case k == 26:
			return "fCD " + h
		case k == 27:
			return "fCL " + h
		case k == 28:
			return fmt.Sprintf("fRD %s %d", h, r.pick2([]int{-1, 0, 1, 2, 3}))
		default:
			return fmt.Sprintf("fRN %s %d", h, r.pick2([]int{-1, 0, 1, 2, 3}))
		}
	}
	switch k := r.intn(100); {
	case k < 10:
		return fmt.Sprintf("MK %s %s %s", vs, tok(g.path()), perm())
	case k < 14:
		return fmt.Sprintf("MA %s %s %s", vs, tok(g.path()), perm())
	case k < 24:
		return fmt.Sprintf("OP %s %s %d %s", vs, tok(g.path()), g.flag(), perm())
	case k < 30:
		return fmt.Sprintf("WF %s %s %s %s", vs, tok(g.path()), tok(r.pick(fsData)), perm())
	case k < 36:
		return fmt.Sprintf("RM %s %s", vs, tok(g.path()))
	case k < 39:
		return fmt.Sprintf("RA %s %s", vs, tok(g.path()))
	case k < 48:
		return fmt.Sprintf("RN %s %s %s", vs, tok(g.path()), tok(g.path()))
	case k < 54:
		return fmt.Sprintf("LN %s %s %s", vs, tok(g.path()), tok(g.path()))
	case k < 62:
		return fmt.Sprintf("SL %s %s %s", vs, tok(g.target()), tok(g.path()))
	case k < 64:
		return fmt.Sprintf("RL %s %s", vs, tok(g.path()))
	case k < 67:
		return fmt.Sprintf("TR %s %s %d", vs, tok(g.path()), g.off())
	case k < 71:
		return fmt.Sprintf("CM %s %s %s", vs, tok(g.path()), perm())
	case k < 74:
		u := fsUsers[r.intn(len(fsUsers))]
		if r.chance(1, 6) {
			u = [3]int{-1, -1, 0}
		}
		return fmt.Sprintf("%s %s %s %d %d", r.pick([]string{"CO", "LC"}), vs, tok(g.path()), u[0], u[1])
	case k < 75:
		return fmt.Sprintf("CT %s %s", vs, tok(g.path()))
	case k < 78:
		return fmt.Sprintf("CD %s %s", vs, tok(g.path()))
	case k < 79:
		return "WD " + vs
	case k < 83:
		return fmt.Sprintf("%s %s %s", r.pick([]string{"ST", "LS"}), vs, tok(g.path()))
	case k < 86:
		if g.noEval {
			return fmt.Sprintf("ST %s %s", vs, tok(g.path()))
		}
		return fmt.Sprintf("ES %s %s", vs, tok(g.path()))
	case k < 89:
		return fmt.Sprintf("RD %s %s", vs, tok(g.path()))
	case k < 92:
		return fmt.Sprintf("RF %s %s", vs, tok(g.path()))
	case k < 94:
		if g.nviews < 4 && !g.single {
			// one view in five is made of the current directory itself ("." must give a NEW view, not the receiver)
			if r.chance(1, 5) {
				return fmt.Sprintf("SB %s %s", vs, tok(r.pick([]string{".", ".", "./", ""})))
			}
			return fmt.Sprintf("SB %s %s", vs, tok(g.path()))
		}
		return fmt.Sprintf("ST %s %s", vs, tok(g.path()))
	case k < 97:
		if g.admin {
			return fmt.Sprintf("LS %s %s", vs, tok(g.path()))
		}
		u := fsUsers[r.intn(len(fsUsers))]
		return fmt.Sprintf("SU %s %d %d %d", vs, u[0], u[1], u[2])
	default:
		return fmt.Sprintf("UM %s %d", vs, r.pick2([]int{0, 0o22, 0o27, 0o77, 0o777}))
	}
}

func opKind(o string) string { return strings.Fields(o)[0] }
func resKind(r string) string {
	f := strings.Fields(r)
	if len(f) == 0 {
		return "?"
	}
	if f[0] == "E" || f[0] == "EP" {
		return f[0] + ":" + f[1]
	}
	return f[0]
}

func runFS(cfg config) {
	o := newOut(cfg.dir, cfg.name)
	defer o.close(cfg.name)
	if rl := cfg.replayLines(); rl != nil {
		for _, l := range rl {
			// replay with full snapshots so that the difference is visible
			parts := strings.SplitN(l, " | ", 2)
			hd := strings.Fields(parts[0])
			if len(hd) == 4 && os.Getenv("VERIF_FS_FULLSNAP") == "1" {
				hd[3] = "full"
				l = strings.Join(hd, " ")
				if len(parts) == 2 {
					l += " | " + parts[1]
				}
			}
			o.emit(l, runFSHistory(l), "")
		}
		return
	}
	nh, hl := 400, 40
	if cfg.tier == "thorough" {
		nh, hl = 6000, 80
	}
	o.rule = fmt.Sprintf("%d random histories of %d calls over names {a,b,c}, state-aware path choice (existing / child of existing dir, file, symlink / missing parent / special and unclean spellings / relative), all VFS namespace calls, handle calls, Sub views, SetUser/SetUMask; every result and the full tree snapshot (digest) after every call compared with the extracted Coq world model; distinct = distinct (call kind, result kind) x snapshot digests", nh, hl)
	r := &rng{s: cfg.seed*7919 + 13}
	lens := 0
	for i := 0; i < nh; i++ {
		um := r.pick2([]int{0o22, 0o22, 0, 0o77})
		hdr := fmt.Sprintf("memfs linux %d md5", um)
		w := newFSWorld("memfs", "linux", um)
		g := &fsGen{r: r, w: w, admin: i%2 == 0, nviews: 1}
		g.snap = w.snapshotEntries()
		var ops, outs []string
		for j := 0; j < hl; j++ {
			g.nviews = len(w.views)
			op := g.op()
			res := w.applyGuarded(strings.Fields(op))
			ops = append(ops, op)
			o.count("op:" + opKind(op))
			o.count("res:" + resKind(res))
			if res == "DEADLOCK" || res == "PANIC" {
				outs = append(outs, res+showSnapSafe("md5", w, res))
				break
			}
			if raInterrupted(op, res) {
				outs = append(outs, res+" #?")
				break
			}
			g.snap = w.snapshotEntries()
			sn := showSnap("md5", g.snap)
			outs = append(outs, res+sn)
			o.distinct[opKind(op)+"/"+resKind(res)+sn] = struct{}{}
		}
		lens += len(ops)
		o.emit(hdr+" | "+strings.Join(ops, " | "), strings.Join(outs, " | "), "")
	}
	o.extra["total_calls"] = lens
	o.extra["evaluations"] = lens
}
