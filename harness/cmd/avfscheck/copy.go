package main

import (
	"bytes"
	"crypto/md5"
	"encoding/hex"
	"fmt"
	"io/fs"
	"os"
	"strings"
	"sync"

	"github.com/avfs/avfs"
	"github.com/avfs/avfs/vfs/basepathfs"
	"github.com/avfs/avfs/vfs/failfs"
	"github.com/avfs/avfs/vfs/memfs"
	"github.com/avfs/avfs/vfs/orefafs"
	"github.com/avfs/avfs/vfs/osfs"
)

func init() { commands["copy"] = runCopy }

// injErr is an injected error; k identifies the fault (its position in the plan).
type injErr struct{ k int }

func (e *injErr) Error() string { return fmt.Sprintf("injected fault %d", e.k) }

type fault struct {
	prim string // SO SR SC SS DO DW DY DM DC
	idx  int
}

type side struct {
	prefix string // "S" or "D"
	counts map[avfs.FnVFS]int
	faults []fault
	trace  *[]string
}

var srcPrims = map[avfs.FnVFS]string{avfs.FnOpenFile: "SO", avfs.FnFileRead: "SR", avfs.FnFileClose: "SC", avfs.FnStat: "SS"}
var dstPrims = map[avfs.FnVFS]string{avfs.FnOpenFile: "DO", avfs.FnFileWrite: "DW", avfs.FnFileSync: "DY", avfs.FnChmod: "DM", avfs.FnFileClose: "DC"}

func (s *side) failFunc(_ avfs.VFSBase, fn avfs.FnVFS, _ *failfs.FailParam) error {
	m := srcPrims
	if s.prefix == "D" {
		m = dstPrims
	}
	name, ok := m[fn]
	if !ok {
		name = s.prefix + "?" + fn.String()
	}
	i := s.counts[fn]
	s.counts[fn]++
	*s.trace = append(*s.trace, fmt.Sprintf("%s%d", name, i))
	for k, f := range s.faults {
		if f.prim == name && f.idx == i {
			return &injErr{k: k + 1}
		}
	}
	return nil
}

func copyContent(size, cseed int) []byte {
	b := make([]byte, size)
	for i := range b {
		b[i] = byte((i*131 + cseed*17 + (i >> 8)) & 255)
	}
	return b
}

type fsEnv struct {
	vfs  avfs.VFS
	dir  string // directory (in vfs) where files live
	done func()
}

func mkFS(kind string, scratch string, n int) fsEnv {
	switch kind {
	case "mem":
		v := memfs.New()
		return fsEnv{vfs: v, dir: "/tmp", done: func() {}}
	case "orefa":
		v := orefafs.New()
		return fsEnv{vfs: v, dir: "/tmp", done: func() {}}
	case "bpmem":
		m := memfs.New()
		if err := m.MkdirAll("/base/tmp", 0o777); err != nil {
			panic(err)
		}
		return fsEnv{vfs: basepathfs.New(m, "/base"), dir: "/tmp", done: func() {}}
	case "os":
		d := fmt.Sprintf("%s/c%d", scratch, n)
		if err := os.MkdirAll(d, 0o755); err != nil {
			panic(err)
		}
		return fsEnv{vfs: osfs.NewWithNoIdm(), dir: d, done: func() { os.RemoveAll(d) }}
	}
	panic("bad fs kind " + kind)
}

func showErr(err error) string {
	if err == nil {
		return "nil"
	}
	if ie, ok := err.(*injErr); ok {
		return fmt.Sprintf("E%d", ie.k)
	}
	return "B:" + tok(err.Error())
}

func md5hex(b []byte) string {
	s := md5.Sum(b)
	return hex.EncodeToString(s[:])
}

type copyCase struct {
	kind         string // copy | hash
	srcfs, dstfs string
	hashing      bool
	size, cseed  int
	smode        int
	dstPerm      int // -1: destination absent
	faults       []fault
}

func (c copyCase) line() string {
	h := 0
	if c.hashing {
		h = 1
	}
	var sb strings.Builder
	fmt.Fprintf(&sb, "%s %s %s %d %d %d %d %d", c.kind, c.srcfs, c.dstfs, h, c.size, c.cseed, c.smode, c.dstPerm)
	for _, f := range c.faults {
		fmt.Fprintf(&sb, " | %s %d", f.prim, f.idx)
	}
	return sb.String()
}

func parseCopyCase(l string) copyCase {
	parts := strings.Split(l, " | ")
	var c copyCase
	var h int
	fmt.Sscan(parts[0], &c.kind, &c.srcfs, &c.dstfs, &h, &c.size, &c.cseed, &c.smode, &c.dstPerm)
	c.hashing = h == 1
	for _, p := range parts[1:] {
		var f fault
		fmt.Sscan(p, &f.prim, &f.idx)
		c.faults = append(c.faults, f)
	}
	return c
}

var copyCounter int

func execCopyCaseVia(c copyCase, scratch string, direct bool) (obs string) {
	defer func() {
		if r := recover(); r != nil {
			obs = "PANIC " + tok(fmt.Sprint(r))
		}
	}()
	copyCounter++
	se := mkFS(c.srcfs, scratch, copyCounter*2)
	defer se.done()
	de := se
	if c.kind == "copy" {
		de = mkFS(c.dstfs, scratch, copyCounter*2+1)
		defer de.done()
	}
	srcPath := se.vfs.Join(se.dir, "src.dat")
	dstPath := de.vfs.Join(de.dir, "dst.dat")
	content := copyContent(c.size, c.cseed)
	if err := se.vfs.WriteFile(srcPath, content, 0o644); err != nil {
		panic(err)
	}
	if err := se.vfs.Chmod(srcPath, fs.FileMode(c.smode)); err != nil {
		panic(err)
	}
	if c.kind == "copy" && c.dstPerm >= 0 {
		// an existing destination is always LONGER than the source: a copy that does not truncate shows its old tail
		if err := de.vfs.WriteFile(dstPath, bytes.Repeat([]byte("old-content."), (c.size+100)/12+1), 0o644); err != nil {
			panic(err)
		}
		if err := de.vfs.Chmod(dstPath, fs.FileMode(c.dstPerm)); err != nil {
			panic(err)
		}
	}
	var trace []string
	sfs := failfs.New(se.vfs)
	ss := &side{prefix: "S", counts: map[avfs.FnVFS]int{}, faults: c.faults, trace: &trace}
	_ = sfs.SetFailFunc(ss.failFunc)
	if c.kind == "hash" {
		sum, err := avfs.HashFile(sfs, srcPath, md5.New())
		s := "nil"
		if sum != nil {
			s = hex.EncodeToString(sum)
		}
		return fmt.Sprintf("err=%s sum=%s trace=%s", showErr(err), s, strings.Join(trace, ","))
	}
	dfs := failfs.New(de.vfs)
	ds := &side{prefix: "D", counts: map[avfs.FnVFS]int{}, faults: c.faults, trace: &trace}
	_ = dfs.SetFailFunc(ds.failFunc)
	var sum []byte
	var err error
	var dvfs, svfs avfs.VFS = dfs, sfs
	if direct { // the file systems themselves, not through FailFS (whose Create/Open are its own)
		dvfs, svfs = de.vfs, se.vfs
	}
	if c.hashing {
		sum, err = avfs.CopyFileHash(dvfs, svfs, dstPath, srcPath, md5.New())
	} else {
		err = avfs.CopyFile(dvfs, svfs, dstPath, srcPath)
	}
	s := "nil"
	if sum != nil {
		s = hex.EncodeToString(sum)
	}
	// read the destination back directly from the base file system
	dst := "absent"
	if info, e := de.vfs.Stat(dstPath); e == nil {
		b, e2 := de.vfs.ReadFile(dstPath)
		if e2 != nil {
			dst = "unreadable:" + tok(e2.Error())
		} else {
			dst = fmt.Sprintf("%d:%s:%o", len(b), md5hex(b), info.Mode().Perm())
		}
	}
	return fmt.Sprintf("err=%s sum=%s dst=%s trace=%s", showErr(err), s, dst, strings.Join(trace, ","))
}

// execCopyCase runs the case through FailFS on both sides (fault plans, consulted primitives); a fault-free copy is
// run a second time on fresh instances WITHOUT the FailFS wrappers and must give the same error, digest and destination.
func execCopyCase(c copyCase, scratch string) string {
	obs := execCopyCaseVia(c, scratch, false)
	if c.kind == "copy" && len(c.faults) == 0 {
		d := execCopyCaseVia(c, scratch, true)
		cut := func(x string) string {
			if i := strings.Index(x, " trace="); i >= 0 {
				return x[:i]
			}
			return x
		}
		if cut(d) != cut(obs) {
			obs += " DIRECT-DIFFERS(" + cut(d) + ")"
		}
	}
	return obs
}

func runCopy(cfg config) {
	_ = avfs.SetUMask(0o022)
	scratch, err := os.MkdirTemp("/dev/shm", "verif-copy-")
	if err != nil {
		panic(err)
	}
	defer os.RemoveAll(scratch)
	o := newOut(cfg.dir, cfg.name)
	defer o.close(cfg.name)
	if ls := cfg.replayLines(); ls != nil {
		for _, l := range ls {
			c := parseCopyCase(l)
			o.emit(c.line(), execCopyCase(c, scratch), "")
		}
		return
	}
	o.rule = "for each (source fs, destination fs) pair and each content size around the 32 KiB buffer: the fault-free plan, then EVERY single-fault plan " +
		"(k-th invocation of primitive F, for every F the fault-free run consulted and every k it reached, plus one index past the end), then seeded random multi-fault plans; " +
		"non-trivial = distinct (sizes, fs pair, plan) whose plan has at least one fault that is actually hit"
	fss := []string{"mem", "orefa", "os", "bpmem"}
	sizes := []int{0, 1, 32767, 32768, 32769, 65536, 65537}
	if cfg.tier == "thorough" {
		sizes = append(sizes, 5, 98304, 131073)
	}
	r := &rng{s: cfg.seed}
	record := func(c copyCase) string {
		obs := execCopyCase(c, scratch)
		key := ""
		hit := strings.Contains(obs, "err=E")
		o.count("kind:" + c.kind)
		o.count("pair:" + c.srcfs + ">" + c.dstfs)
		o.count(fmt.Sprintf("size:%d", c.size))
		o.count(fmt.Sprintf("faults:%d", len(c.faults)))
		if hit {
			key = c.line()
			o.count("outcome:error-reported")
		} else if strings.Contains(obs, "err=nil") {
			o.count("outcome:ok")
		} else {
			o.count("outcome:other")
		}
		for _, f := range c.faults {
			o.count("faultprim:" + f.prim)
		}
		o.emit(c.line(), obs, key)
		return obs
	}
	planFromTrace := func(obs string) []fault {
		// every (prim, idx) of the fault-free trace, plus one past the last index of each prim
		i := strings.Index(obs, "trace=")
		var fs []fault
		last := map[string]int{}
		for _, t := range strings.Split(obs[i+6:], ",") {
			if len(t) < 3 || t[1] == '?' {
				// a primitive the model does not know: no fault plan can name it; the fault-free
				// case itself differs from the model by its trace
				continue
			}
			var idx int
			fmt.Sscan(t[2:], &idx)
			fs = append(fs, fault{prim: t[:2], idx: idx})
			last[t[:2]] = idx
		}
		for p, k := range last {
			fs = append(fs, fault{prim: p, idx: k + 1})
		}
		return fs
	}
	for si, sf := range fss {
		for di, df := range fss {
			for zi, size := range sizes {
				// quick tier: all pairs for the boundary sizes, a diagonal sample for the others
				if cfg.tier != "thorough" && !(size == 32769 || size == 0 || (si+di+zi)%3 == 0) {
					continue
				}
				for _, hashing := range []bool{true, false} {
					if !hashing && cfg.tier != "thorough" && (si+di+zi)%2 == 1 {
						continue
					}
					dstPerm := -1
					if (si+di+zi)%2 == 0 {
						dstPerm = 0o600
					}
					smodes := []int{0o644, 0o666, 0o600, 0o777, 0o755, 0o664, 0o444, 0o602, 0o070}
					smode := smodes[(si*3+di*5+zi)%len(smodes)]
					if !hashing {
						smode = smodes[(si*3+di*5+zi+4)%len(smodes)]
					}
					base := copyCase{kind: "copy", srcfs: sf, dstfs: df, hashing: hashing, size: size, cseed: si*7 + di, smode: smode, dstPerm: dstPerm}
					obs := record(base)
					for _, f := range planFromTrace(obs) {
						c := base
						c.faults = []fault{f}
						record(c)
					}
					// random multi-fault plans
					nm := 2
					if cfg.tier == "thorough" {
						nm = 8
					}
					all := planFromTrace(obs)
					for j := 0; j < nm; j++ {
						c := base
						for k := 0; k < 2+r.intn(3); k++ {
							c.faults = append(c.faults, all[r.intn(len(all))])
						}
						record(c)
					}
				}
			}
		}
		// HashFile on this source fs
		for _, size := range sizes {
			base := copyCase{kind: "hash", srcfs: sf, dstfs: "-", hashing: true, size: size, cseed: si + 3, smode: 0o644, dstPerm: -1}
			obs := record(base)
			for _, f := range planFromTrace(obs) {
				c := base
				c.faults = []fault{f}
				record(c)
			}
		}
	}
	// Concurrent batch: the same fault-free copies and hashes, many at once in different goroutines (CopyFile shares a
	// buffer pool between calls): every call must still give exactly what the model gives for it alone.
	{
		var batch []copyCase
		kinds := []string{"mem", "orefa"}
		for i := 0; i < 48; i++ {
			c := copyCase{kind: "copy", srcfs: kinds[i%2], dstfs: kinds[(i/2)%2], hashing: i%3 != 0, size: []int{32768, 65537, 40000, 98304, 1}[i%5], cseed: 100 + i, smode: 0o644, dstPerm: -1}
			if i%8 == 7 {
				c = copyCase{kind: "hash", srcfs: kinds[i%2], dstfs: "-", hashing: true, size: 65537, cseed: 100 + i, smode: 0o644, dstPerm: -1}
			}
			batch = append(batch, c)
		}
		res := make([]string, len(batch))
		var wg sync.WaitGroup
		for i := range batch {
			wg.Add(1)
			go func(i int) {
				defer wg.Done()
				res[i] = execCopyCase(batch[i], fmt.Sprintf("%s/conc%d", scratch, i))
			}(i)
		}
		wg.Wait()
		for i, c := range batch {
			o.count("kind:concurrent-" + c.kind)
			o.emit(c.line(), res[i], "")
		}
	}

}
