package main

// C14 streams: WalkDir / Glob / ReadDir / Exists, DirExists, IsDir, IsEmpty.
//
// A tree is built by a random history of the fs generator (directories, files, symbolic links including
// dangling and looping ones, mixed owners and permission bits, an acting identity that may be unprivileged),
// then queried:
//   W <root> C | D i | A i | E i   WalkDir(root) with the callback "always nil" / "return fs.SkipDir, fs.SkipAll, a
//                                  custom error at invocation i" - every i <= number of invocations
//   G <pattern>                    Glob
//   R <path>                       ReadDir
//   H <path>                       Exists, DirExists, IsDir, IsEmpty
//
// walkglob   (A)   avfs on MemFS, through RoFS / FailFS(OkFunc) / BasePathFS over MemFS, and on OrefaFS
//                  versus the extracted Coq model of the avfs code (ml/driver walkglob).
// walkglobo  (B/O) the tree of the MemFS history materialised in a chroot on tmpfs; filepath.WalkDir,
//                  filepath.Glob, os.ReadDir there as the acting identity (<name>.oracle) versus avfs on MemFS
//                  (<name>.observed) and versus the Go reference algorithms over the Linux specification model
//                  (ml/driver walkglobref).
//
// case line:   <kind> <check_rest> <umask> <basepath|-> | op | op ... | Q query | Q query ...
// result line: one result per query, " | " separated (syntax: ml/drv_walkglob.ml)

import (
	"errors"
	"fmt"
	"io/fs"
	"os"
	"path/filepath"
	"runtime"
	"sort"
	"strconv"
	"strings"
	"syscall"

	"github.com/avfs/avfs"
	"github.com/avfs/avfs/vfs/basepathfs"
	"github.com/avfs/avfs/vfs/failfs"
	"github.com/avfs/avfs/vfs/orefafs"
	"github.com/avfs/avfs/vfs/osfs"
	"github.com/avfs/avfs/vfs/rofs"
)

func init() {
	commands["walkglob"] = runWalkGlob
	commands["walkglobo"] = runWalkGlobOracle
	commands["walkglobos"] = runWalkGlobOS
}

var errCustom = errors.New("custom callback error")

// ---- the operations under test, behind one interface ---------------------------------------------
type wgOps struct {
	walkDir func(root string, fn fs.WalkDirFunc) error
	glob    func(pattern string) ([]string, error)
	readDir func(name string) ([]fs.DirEntry, error)
	vfs     avfs.VFSBase // nil: the host (package os)
	errc    func(error) string
}

func vfsOps(v avfs.VFS) wgOps {
	return wgOps{walkDir: v.WalkDir, glob: v.Glob, readDir: v.ReadDir, vfs: v, errc: errCode}
}

func hostOps() wgOps {
	return wgOps{walkDir: filepath.WalkDir, glob: filepath.Glob, readDir: os.ReadDir, errc: errCode}
}

const modeTypeBits = uint32(fs.ModeType)

type wgPolicy struct {
	kind string // C D A E
	at   int
}

func (o wgOps) walk(root string, p wgPolicy) (string, int) {
	var vs []string
	n := 0
	err := o.walkDir(root, func(path string, d fs.DirEntry, err error) error {
		e := "1"
		if err != nil {
			e = "0"
		}
		if d == nil {
			vs = append(vs, fmt.Sprintf("%s,-,-,%s", tok(path), e))
		} else {
			vs = append(vs, fmt.Sprintf("%s,%s,%d,%s", tok(path), tok(d.Name()), uint32(d.Type()), e))
		}
		i := n
		n++
		if p.kind != "C" && i == p.at {
			switch p.kind {
			case "D":
				return fs.SkipDir
			case "A":
				return fs.SkipAll
			default:
				return errCustom
			}
		}
		if n > 5000 { // a cyclic graph: the model reports "fuel"
			return errors.New("runaway walk")
		}
		return nil
	})
	ret := "nil"
	switch {
	case err == nil:
	case err == fs.SkipDir:
		ret = "skipdir"
	case err == fs.SkipAll:
		ret = "skipall"
	case err == errCustom:
		ret = "custom"
	default:
		ret = "other:" + o.errc(err)
	}
	return "W " + strings.Join(vs, ";") + " => " + ret, n
}

func (o wgOps) globQ(pattern string) string {
	m, err := o.glob(pattern)
	if err != nil {
		if err == filepath.ErrBadPattern {
			return "G bad"
		}
		return "G err:" + o.errc(err)
	}
	if m == nil {
		return "G nil"
	}
	if len(m) == 0 {
		return "G empty"
	}
	ts := make([]string, len(m))
	for i, x := range m {
		ts[i] = tok(x)
	}
	return "G " + strings.Join(ts, ",")
}

func (o wgOps) readDirQ(p string) string {
	des, err := o.readDir(p)
	ts := make([]string, len(des))
	for i, d := range des {
		ts[i] = fmt.Sprintf("%s:%d", tok(d.Name()), uint32(d.Type()))
	}
	e := "nil"
	if err != nil {
		e = o.errc(err)
	}
	return "R " + strings.Join(ts, ",") + " " + e
}

func (o wgOps) helpersQ(p string) string {
	sh := func(b bool, err error) string {
		s := "0"
		if b {
			s = "1"
		}
		if err == nil {
			return s + "/nil"
		}
		var pe *fs.PathError
		if !errors.As(err, &pe) && strings.HasSuffix(err.Error(), "path does not exist") {
			return s + "/nopath"
		}
		return s + "/" + o.errc(err)
	}
	a, e1 := avfs.Exists(o.vfs, p)
	b, e2 := avfs.DirExists(o.vfs, p)
	c, e3 := avfs.IsDir(o.vfs, p)
	d, e4 := avfs.IsEmpty(o.vfs, p)
	return fmt.Sprintf("H %s %s %s %s", sh(a, e1), sh(b, e2), sh(c, e3), sh(d, e4))
}

func (o wgOps) query(q string) string {
	t := strings.Fields(q)
	switch t[1] {
	case "W":
		p := wgPolicy{kind: t[3]}
		if len(t) > 4 {
			p.at = atoi(t[4])
		}
		s, _ := o.walk(untok(t[2]), p)
		return s
	case "G":
		return o.globQ(untok(t[2]))
	case "R":
		return o.readDirQ(untok(t[2]))
	case "H":
		if o.vfs == nil {
			return "H -"
		}
		return o.helpersQ(untok(t[2]))
	}
	return "BADQUERY"
}

func guardedQuery(o wgOps, q string) string {
	return guarded(func() string { return o.query(q) })
}

// ---- patterns ---------------------------------------------------------------------------------------
var wgSegs = []string{"a", "b", "*", "?", "[ab]", "[^a]", "\\a"}

var wgSpecialPatterns = []string{"/", "", ".", "..", "*/", "/*/", "//", "a//b", "*//a", "//*", "[", "a/[", "*/[", "a*[", "[a/b]x",
	"\\", "a\\", "[]", "[^]", "[a-]", "[]a]", "/tmp/*", "../*", "./*", "*/../*", "/h*/../*", "/*/.", "*/..", "/*mp", "/[r-t]*",
	"/home", "/nope", "/a/b", "a/b", ".*", "/.*", "*/.*", "/*/.?", ".?", "/.h", "*/.d/*", "/big/*", "/big/e1?", "/*/e0*", "/big/d*/*", "/big/[de]*", "big/*", "*/*/*/*", "/\\*", "/?o*", "c", "/c/*", "*c*", "/a/./*", "/a/../*", "/./*"}

func wgPatterns(maxSeg int) []string {
	var out []string
	var rec func(prefix string, k int)
	rec = func(prefix string, k int) {
		for _, s := range wgSegs {
			p := prefix + s
			out = append(out, p, "/"+p)
			if k <= 2 {
				out = append(out, p+"/", "/"+p+"/")
			}
			if k < maxSeg {
				rec(p+"/", k+1)
			}
		}
	}
	rec("", 1)
	return append(out, wgSpecialPatterns...)
}

// ---- building a tree ----------------------------------------------------------------------------------
type wgTree struct {
	um   int
	ops  []string
	w    *fsWorld
	snap []snapEntry
	user [3]int // uid gid admin of the acting identity
	cwd  string
}

// genTree runs a random history on a fresh MemFS; nil when the history hit a panic/deadlock or an interrupted
// RemoveAll (those belong to other properties).
// wgBig: genTree adds the directory /big (40 entries created in a shuffled order): set by the walkglobos stream
var wgBig bool

func genTree(r *rng, hl int, mode int, keepRoot bool) *wgTree {
	um := r.pick2([]int{0o22, 0o22, 0, 0o77, 0o27})
	w := newFSWorld("memfs", "linux", um)
	g := &fsGen{r: r, w: w, admin: mode == 0, nviews: 1, single: true, clean: mode == 2, noEval: true, links: 1 + r.intn(2)}
	g.snap = w.snapshotEntries()
	t := &wgTree{um: um, w: w}
	for j := 0; j < hl; j++ {
		op := g.op()
		k := opKind(op)
		if k == "CD" || k == "RA" || k == "SB" || k[0] == 'f' {
			continue // the working directory is chosen at the end; no handles, no Sub views
		}
		if keepRoot && (k == "CM" || k == "CO" || k == "LC") && filepath.Clean("/"+untok(strings.Fields(op)[2])) == "/" {
			// oracle stream: the mode and owner of "/" stay as created.  MemFS resolves "." (also the implicit directory
			// of a relative Glob pattern) and ".." lexically, without the search-permission check Linux makes on the
			// working directory: with "/" at 0644 and the working directory "/", an unprivileged ReadDir(".") or
			// Glob("*") succeeds on MemFS and gets EACCES on Linux (a C01/C03 matter; absolute operands agree since the
			// root search check was repaired); the enumeration composites are compared on trees where that cannot show.
			continue
		}
		res := w.applyGuarded(strings.Fields(op))
		if res == "DEADLOCK" || res == "PANIC" {
			return nil
		}
		t.ops = append(t.ops, op)
		g.snap = w.snapshotEntries()
	}
	// names starting with a dot, which the name alphabet of the fs generator lacks: Glob's "*" and ReadDir list them
	if r.chance(2, 3) {
		var dirs []string
		for _, e := range g.snap {
			if e.kind == 'D' {
				dirs = append(dirs, e.path)
			}
		}
		for k := 0; k < 2 && len(dirs) > 0; k++ {
			d := dirs[r.intn(len(dirs))]
			op := fmt.Sprintf("WF 0 %s s68 420", tok(pjoin(d, ".h")))
			if k == 1 {
				op = fmt.Sprintf("MK 0 %s 493", tok(pjoin(d, ".d")))
			}
			if res := w.applyGuarded(strings.Fields(op)); res == "DEADLOCK" || res == "PANIC" {
				return nil
			}
			t.ops = append(t.ops, op)
		}
		g.snap = w.snapshotEntries()
	}
	if wgBig { // a directory with many entries created in a shuffled order (the real file system lists it unsorted)
		var ops []string
		ops = append(ops, "SU 0 0 0 1", "MK 0 "+tok("/big")+" 493")
		idx := make([]int, 40)
		for i := range idx {
			idx[i] = i
		}
		for i := len(idx) - 1; i > 0; i-- {
			j := r.intn(i + 1)
			idx[i], idx[j] = idx[j], idx[i]
		}
		for n, i := range idx {
			if n%13 == 5 {
				ops = append(ops, fmt.Sprintf("MK 0 %s 493", tok(fmt.Sprintf("/big/d%02d", i))),
					fmt.Sprintf("WF 0 %s s78 420", tok(fmt.Sprintf("/big/d%02d/z", i))), fmt.Sprintf("WF 0 %s s78 420", tok(fmt.Sprintf("/big/d%02d/a", i))))
				continue
			}
			ops = append(ops, fmt.Sprintf("WF 0 %s s78 420", tok(fmt.Sprintf("/big/e%02d", i))))
		}
		for _, op := range ops {
			if res := w.applyGuarded(strings.Fields(op)); res != "ok" {
				return nil
			}
			t.ops = append(t.ops, op)
		}
		g.snap = w.snapshotEntries()
	}
	t.snap = g.snap
	if keepRoot { // also when reached through a symbolic link to "/"
		if ri, err := w.base.Lstat("/"); err != nil || ri.Mode().Perm() != 0o755 || w.base.ToSysStat(ri).Uid() != 0 {
			return nil
		}
	}
	// the acting identity and the working directory of the queries
	u := fsUsers[r.intn(len(fsUsers))]
	if mode == 0 {
		u = fsUsers[0]
	}
	t.user = u
	su := fmt.Sprintf("SU 0 %d %d %d", u[0], u[1], u[2])
	if res := w.applyGuarded(strings.Fields(su)); res != "ok" {
		return nil
	}
	t.ops = append(t.ops, su)
	t.cwd = "/"
	if r.chance(1, 2) {
		var dirs []string
		for _, e := range t.snap {
			if e.kind == 'D' {
				dirs = append(dirs, e.path)
			}
		}
		d := dirs[r.intn(len(dirs))]
		cd := "CD 0 " + tok(d)
		if res := w.applyGuarded(strings.Fields(cd)); res == "ok" {
			t.ops = append(t.ops, cd)
			t.cwd = d
		}
	}
	return t
}

// paths of interest in a tree: every entry (bounded), plus missing / relative / unclean spellings
func (t *wgTree) queryPaths(r *rng, max int) []string {
	var ps []string
	seen := map[string]bool{}
	add := func(p string) {
		if !seen[p] {
			seen[p] = true
			ps = append(ps, p)
		}
	}
	add("/")
	for _, e := range t.snap {
		if e.path == "/big" {
			add("/big")
			max++
		}
	}
	idx := make([]int, len(t.snap))
	for i := range idx {
		idx[i] = i
	}
	for i := len(idx) - 1; i > 0; i-- { // deterministic shuffle
		j := r.intn(i + 1)
		idx[i], idx[j] = idx[j], idx[i]
	}
	for _, i := range idx {
		if len(ps) >= max {
			break
		}
		e := t.snap[i]
		if e.kind == '!' {
			continue
		}
		add(e.path)
	}
	for _, p := range []string{".", "", "a", "b/", "./a", "..", "/nope", "/a/nope/x", "/a/../a", "//a", "/a/", "a/b", "/tmp/..", "c/."} {
		add(p)
	}
	return ps
}

func absClean(p string) bool {
	return strings.HasPrefix(p, "/") && filepath.Clean(p) == p
}

// queries generates the query list for one tree, evaluating the always-continue walk on [o] to learn the number
// of callback invocations.  absOnly: BasePathFS translates absolute paths only (relative ones are C10's concern).
func (t *wgTree) queries(r *rng, o wgOps, maxSeg, maxPaths int, absOnly bool, o2 *wgOps) []string {
	var qs []string
	paths := t.queryPaths(r, maxPaths)
	for _, p := range paths {
		if absOnly && !absClean(p) {
			continue
		}
		qs = append(qs, "Q R "+tok(p), "Q H "+tok(p))
		_, n := o.walk(p, wgPolicy{kind: "C"})
		if o2 != nil { // the oracle may make more invocations where the two deviate
			if _, n2 := o2.walk(p, wgPolicy{kind: "C"}); n2 > n {
				n = n2
			}
		}
		qs = append(qs, "Q W "+tok(p)+" C")
		if n > 60 {
			n = 60
		}
		for i := 0; i <= n; i++ {
			for _, k := range []string{"D", "A", "E"} {
				qs = append(qs, fmt.Sprintf("Q W %s %s %d", tok(p), k, i))
			}
		}
	}
	for _, p := range wgPatterns(maxSeg) {
		if absOnly && !strings.HasPrefix(p, "/") {
			continue
		}
		qs = append(qs, "Q G "+tok(p))
	}
	return qs
}

// nontrivialResult: a Glob with at least one match or ErrBadPattern; a walk with at least two callback invocations or a
// non-nil return; a ReadDir that lists at least one entry or fails with something else than "no such file"; helpers
// with at least one positive answer or an error other than "no such file".  distinct_nontrivial counts the DISTINCT
// (tree, file system kind, query) triples whose implementation result is non-trivial in this sense.
func nontrivialResult(res string) bool {
	f := strings.Fields(res)
	if len(f) < 2 {
		return false
	}
	switch f[0] {
	case "G":
		return f[1] != "nil"
	case "W":
		return strings.Contains(f[1], ";") || f[len(f)-1] != "nil"
	case "R":
		return (len(f) == 3 && f[1] != "") || (f[len(f)-1] != "nil" && f[len(f)-1] != "L2")
	case "H":
		return strings.Contains(res, "1/") || strings.Contains(res, "/L13") || strings.Contains(res, "/L20") || strings.Contains(res, "/L40")
	}
	return false
}

func queryKind(q string) string {
	t := strings.Fields(q)
	if t[1] == "W" {
		return "W" + t[3]
	}
	return t[1]
}

const wgBatch = 120

// emitBatches writes the queries of one tree as case lines of at most wgBatch queries
func emitBatches(o *out, hdr string, ops []string, qs []string, eval func(q string) string, extra func(caseLine string, results []string)) {
	for i := 0; i < len(qs); i += wgBatch {
		j := i + wgBatch
		if j > len(qs) {
			j = len(qs)
		}
		var rs []string
		for _, q := range qs[i:j] {
			res := eval(q)
			rs = append(rs, res)
			o.count("query:" + queryKind(q))
			if nontrivialResult(res) {
				o.distinct[hdr+strings.Join(ops, "|")+q] = struct{}{}
			}
			rk := strings.Fields(res)
			if len(rk) > 1 && rk[0] == "G" {
				switch rk[1] {
				case "nil", "bad":
					o.count("glob:" + rk[1])
				default:
					o.count("glob:matches")
				}
			}
			if rk[0] == "W" {
				o.count("walk-ret:" + rk[len(rk)-1])
			}
		}
		line := hdr + " | " + strings.Join(append(append([]string{}, ops...), qs[i:j]...), " | ")
		o.emit(line, strings.Join(rs, " | "), "")
		if extra != nil {
			extra(line, qs[i:j])
		}
	}
}

// checkRestFlag: neither avfs' Match nor path/filepath.Match (Go 1.23.5) validates the rest of the pattern after a
// chunk that failed to match (only package path's Match does): PathMatch.v's check_rest is false for both builds.
func checkRestFlag() string { return "0" }

// ---- kinds of file systems --------------------------------------------------------------------------------
// wrapKind returns the operations for the given kind over the world's acting view.
func wrapKind(kind string, v avfs.VFS, bp string) wgOps {
	switch kind {
	case "memfs":
		return vfsOps(v)
	case "rofs":
		return vfsOps(rofs.New(v))
	case "failfs":
		return vfsOps(failfs.New(v))
	case "basepathfs":
		return vfsOps(basepathfs.New(v, bp))
	}
	panic("kind " + kind)
}

// canonical build operations (MemFS model side) of the directory/file part of a tree, and the same tree on OrefaFS
func orefaBuild(snap []snapEntry, ofs avfs.VFS) []string {
	var ops []string
	for _, d := range []string{"/home", "/root", "/tmp"} { // start from the bare root on both sides
		ops = append(ops, "RM 0 "+tok(d))
		if err := ofs.Remove(d); err != nil {
			panic(err)
		}
	}
	for _, e := range snap {
		switch e.kind {
		case 'D':
			if e.path == "/" {
				continue
			}
			ops = append(ops, fmt.Sprintf("MA 0 %s 493", tok(e.path)))
			if err := ofs.MkdirAll(e.path, 0o755); err != nil {
				panic(err)
			}
		case 'F':
			ops = append(ops, fmt.Sprintf("WF 0 %s s78 420", tok(e.path)))
			if err := ofs.WriteFile(e.path, []byte("x"), 0o644); err != nil {
				panic(err)
			}
		}
	}
	return ops
}

// orefaAdmissible: OrefaFS keeps a flat map from absolute path to node; a name whose parent is missing or is not a
// directory gets "no such file or directory" where a tree walk (MemFS, Linux) says "not a directory".  The reference
// of the OrefaFS lines is the MemFS model run as the administrator, so ReadDir and the helpers (whose answers carry
// the error) are asked only about paths all of whose proper ancestors are directories of the tree (working directory
// "/"); WalkDir and Glob, which only look at whether a primitive failed, are asked about everything.
func orefaAdmissible(qs []string, snap []snapEntry) []string {
	dirs := map[string]bool{}
	for _, e := range snap {
		if e.kind == 'D' {
			dirs[e.path] = true
		}
	}
	var out []string
	for _, q := range qs {
		t := strings.Fields(q)
		if t[1] == "R" || t[1] == "H" {
			p := untok(t[2])
			if p == "" {
				continue
			}
			ap := filepath.Clean("/" + p)
			if ap != "/" && !dirs[filepath.Dir(ap)] {
				continue
			}
		}
		out = append(out, q)
	}
	return out
}

func replayCase(line string) (hd []string, ops, qs []string) {
	parts := strings.Split(line, " | ")
	hd = strings.Fields(parts[0])
	for _, p := range parts[1:] {
		if strings.HasPrefix(p, "Q ") {
			qs = append(qs, p)
		} else {
			ops = append(ops, p)
		}
	}
	return
}

// buildWorld re-executes the operations of a case line on the implementation
func buildWorld(hd []string, ops []string) (wgOps, *fsWorld, bool) {
	um := atoi(hd[2])
	if hd[0] == "orefafs" {
		avfs.SetUMask(fs.FileMode(um))
		ofs := orefafs.New()
		for _, op := range ops {
			t := strings.Fields(op)
			switch t[0] {
			case "RM":
				ofs.Remove(untok(t[2]))
			case "MA":
				ofs.MkdirAll(untok(t[2]), fs.FileMode(atoi64(t[3])))
			case "MK":
				ofs.Mkdir(untok(t[2]), fs.FileMode(atoi64(t[3])))
			case "RN": // witness histories: the tree after a rename (re-keying of the path index) must enumerate like MemFS'
				ofs.Rename(untok(t[2]), untok(t[3]))
			case "WF":
				ofs.WriteFile(untok(t[2]), []byte(untok(t[3])), fs.FileMode(atoi64(t[4])))
			}
		}
		return vfsOps(ofs), nil, true
	}
	w := newFSWorld("memfs", "linux", um)
	for _, op := range ops {
		res := w.applyGuarded(strings.Fields(op))
		if res == "DEADLOCK" || res == "PANIC" {
			return wgOps{}, nil, false
		}
	}
	bp := ""
	if hd[3] != "-" {
		bp = untok(hd[3])
	}
	return wrapKind(hd[0], w.views[0], bp), w, true
}

func runWalkGlob(cfg config) {
	o := newOut(cfg.dir, cfg.name)
	defer o.close(cfg.name)
	cr := checkRestFlag()
	if rl := cfg.replayLines(); rl != nil {
		for _, l := range rl {
			hd, ops, qs := replayCase(l)
			wo, _, ok := buildWorld(hd, ops)
			var rs []string
			for _, q := range qs {
				if !ok {
					rs = append(rs, "BUILDFAILED")
					continue
				}
				rs = append(rs, guardedQuery(wo, q))
			}
			o.emit(l, strings.Join(rs, " | "), "")
		}
		return
	}
	ntrees, hl, maxSeg, maxPaths := 40, 30, 2, 8
	if cfg.tier == "thorough" {
		ntrees, hl, maxSeg, maxPaths = 120, 45, 3, 14
	}
	o.rule = fmt.Sprintf("%d trees built by random MemFS histories of %d calls (mkdir/open/write/remove/rename/link/symlink incl. dangling and looping links/chmod/chown/SetUser/SetUMask; every third tree administrator-only, the others with an unprivileged acting identity and unreadable directories), each queried on MemFS and - round robin - through RoFS, FailFS(OkFunc), BasePathFS (base path = a directory of the tree; absolute clean paths) and as the same directory/file tree on OrefaFS: ReadDir and Exists/DirExists/IsDir/IsEmpty on up to %d paths (existing entries, missing, relative, unclean), WalkDir from each of them with the always-nil callback and with fs.SkipDir / fs.SkipAll / a custom error returned at EVERY callback invocation index i <= #invocations, Glob of every pattern of <= %d segments over {a,b,*,?,[ab],[^a],\\a} absolute and relative, with and without a trailing separator, plus %d special patterns (malformed, '.', '..', doubled separators, class spanning a separator); compared with the extracted Coq model of vfs.go's WalkDir/Glob/ReadDir and vfs_aferoutils.go over the MemFS world model; distinct_nontrivial = distinct (tree, file system, query) whose result is non-trivial: a Glob with a match or ErrBadPattern, a walk with >= 2 callback invocations or a non-nil return, a ReadDir listing an entry or failing otherwise than ENOENT, a helper answering true or failing otherwise than ENOENT", ntrees, hl, maxPaths, maxSeg, len(wgSpecialPatterns))
	r := &rng{s: cfg.seed*15485863 + 11}
	kinds := []string{"rofs", "failfs", "basepathfs", "orefafs"}
	nq := 0
	for i := 0; i < ntrees; i++ {
		var t *wgTree
		for t == nil {
			t = genTree(r, hl, i%3, false)
		}
		o.count(fmt.Sprintf("tree-entries:%02d-%02d", len(t.snap)/10*10, len(t.snap)/10*10+9))
		o.count(fmt.Sprintf("acting-admin:%d", t.user[2]))
		hdr := fmt.Sprintf("memfs %s %d -", cr, t.um)
		mo := vfsOps(t.w.views[0])
		ms := maxSeg
		if i%5 == 4 {
			ms = 3 // three-segment patterns on every fifth tree also in the quick tier
		}
		qs := t.queries(r, mo, ms, maxPaths, false, nil)
		emitBatches(o, hdr, t.ops, qs, func(q string) string { return guardedQuery(mo, q) }, nil)
		nq += len(qs)
		// one wrapper / other file system per tree
		kind := kinds[i%len(kinds)]
		o.count("kind:" + kind)
		switch kind {
		case "rofs", "failfs":
			wo := wrapKind(kind, t.w.views[0], "")
			hdr := fmt.Sprintf("%s %s %d -", kind, cr, t.um)
			emitBatches(o, hdr, t.ops, qs, func(q string) string { return guardedQuery(wo, q) }, nil)
			nq += len(qs)
		case "basepathfs":
			var dirs []string
			for _, e := range t.snap {
				if e.kind == 'D' && e.path != "/" {
					dirs = append(dirs, e.path)
				}
			}
			if len(dirs) == 0 {
				continue
			}
			bp := dirs[r.intn(len(dirs))]
			if _, err := t.w.views[0].Stat(bp); err != nil { // the acting identity cannot reach it
				bp = "/tmp"
			}
			if _, err := t.w.views[0].Stat(bp); err != nil {
				continue
			}
			wo := wrapKind(kind, t.w.views[0], bp)
			hdr := fmt.Sprintf("%s %s %d %s", kind, cr, t.um, tok(bp))
			// paths of the BasePathFS namespace: the entries below the base path, re-rooted
			t2 := &wgTree{um: t.um, ops: t.ops, w: t.w, user: t.user, cwd: t.cwd}
			for _, e := range t.snap {
				if e.path == bp {
					t2.snap = append(t2.snap, snapEntry{path: "/", kind: e.kind})
				} else if strings.HasPrefix(e.path, bp+"/") {
					t2.snap = append(t2.snap, snapEntry{path: e.path[len(bp):], kind: e.kind})
				}
			}
			qs2 := t2.queries(r, wo, maxSeg, maxPaths, true, nil)
			emitBatches(o, hdr, t.ops, qs2, func(q string) string { return guardedQuery(wo, q) }, nil)
			nq += len(qs2)
		case "orefafs":
			avfs.SetUMask(fs.FileMode(t.um))
			ofs := orefafs.New()
			ops := orefaBuild(t.snap, ofs)
			oo := vfsOps(ofs)
			hdr := fmt.Sprintf("orefafs %s %d -", cr, t.um)
			t3 := &wgTree{um: t.um}
			for _, e := range t.snap {
				if e.kind == 'D' || e.kind == 'F' {
					t3.snap = append(t3.snap, e)
				}
			}
			qs3 := orefaAdmissible(t3.queries(r, oo, maxSeg, maxPaths, false, nil), t3.snap)
			emitBatches(o, hdr, ops, qs3, func(q string) string { return guardedQuery(oo, q) }, nil)
			nq += len(qs3)
		}
	}
	o.extra["evaluations"] = nq
	o.extra["trees"] = ntrees
}

// ---- the oracle stream ---------------------------------------------------------------------------------------
// materialise recreates, as root inside the chroot, the tree of a MemFS snapshot: directories, files (one inode
// per path), symbolic links, with permission bits and owners.
func materialise(w *fsWorld, es []snapEntry) {
	syscall.Umask(0)
	type fix struct {
		path string
		mode fs.FileMode
	}
	var dirs []fix
	// creation order: parents before children, otherwise scrambled (a deterministic hash of the path), so that the
	// directory order of the real file system differs from the lexical order
	es = append([]snapEntry(nil), es...)
	depth := func(p string) int { return strings.Count(strings.TrimSuffix(p, "/"), "/") }
	sort.SliceStable(es, func(i, j int) bool {
		di, dj := depth(es[i].path), depth(es[j].path)
		if di != dj {
			return di < dj
		}
		return pathHash(es[i].path) < pathHash(es[j].path)
	})
	for _, e := range es {
		if e.kind == '!' {
			continue
		}
		st := w.base.ToSysStat(e.info)
		bits := e.info.Mode() & (fs.ModePerm | fs.ModeSticky | fs.ModeSetgid | fs.ModeSetuid)
		switch e.kind {
		case 'D':
			if e.path != "/" {
				if err := os.Mkdir(e.path, 0o755); err != nil && !os.IsExist(err) {
					panic(err)
				}
			}
			if err := os.Lchown(e.path, st.Uid(), st.Gid()); err != nil {
				panic(err)
			}
			dirs = append(dirs, fix{e.path, bits})
		case 'F':
			if err := os.WriteFile(e.path, []byte("x"), 0o600); err != nil {
				panic(err)
			}
			if err := os.Lchown(e.path, st.Uid(), st.Gid()); err != nil {
				panic(err)
			}
			if err := os.Chmod(e.path, bits); err != nil {
				panic(err)
			}
		case 'L':
			target, err := w.base.Readlink(e.path)
			if err != nil {
				panic(err)
			}
			if err := os.Symlink(target, e.path); err != nil {
				panic(err)
			}
			if err := os.Lchown(e.path, st.Uid(), st.Gid()); err != nil {
				panic(err)
			}
		}
	}
	for i := len(dirs) - 1; i >= 0; i-- { // modes last (chown clears set-id bits), deepest first
		if err := os.Chmod(dirs[i].path, dirs[i].mode); err != nil {
			panic(err)
		}
	}
}

func pathHash(p string) uint64 {
	h := uint64(1469598103934665603)
	for i := 0; i < len(p); i++ {
		h ^= uint64(p[i])
		h *= 1099511628211
	}
	h ^= h >> 29
	return h * 0x9e3779b97f4a7c15
}

// rawUnsorted counts, as root, the directories of the materialised tree whose raw listing (os.File.ReadDir(-1)) is
// not in name order: the cases in which a missing sort in avfs shows
func rawUnsorted(es []snapEntry) (unsorted, multi int) {
	for _, e := range es {
		if e.kind != 'D' {
			continue
		}
		f, err := os.Open(e.path)
		if err != nil {
			continue
		}
		des, _ := f.ReadDir(-1)
		f.Close()
		if len(des) < 2 {
			continue
		}
		multi++
		for i := 1; i < len(des); i++ {
			if des[i-1].Name() > des[i].Name() {
				unsorted++
				break
			}
		}
	}
	return
}

// hostOpsAt: the host's functions seen through a base path, as BasePathFS presents them: operands prefixed with
// the base path, reported paths and matches stripped of it
func hostOpsAt(bp string) wgOps {
	to := func(p string) string { return filepath.Join(bp, filepath.Clean(p)) }
	from := func(p string) string {
		r := strings.TrimPrefix(p, bp)
		if r == "" {
			return "/"
		}
		return r
	}
	return wgOps{
		walkDir: func(root string, fn fs.WalkDirFunc) error {
			return filepath.WalkDir(to(root), func(path string, d fs.DirEntry, err error) error { return fn(from(path), d, err) })
		},
		glob: func(pattern string) ([]string, error) {
			m, err := filepath.Glob(bp + pattern)
			for i := range m {
				m[i] = from(m[i])
			}
			return m, err
		},
		readDir: func(name string) ([]fs.DirEntry, error) { return os.ReadDir(to(name)) },
		errc:    errCode,
	}
}

// osKind: the operations of the given kind over OsFS
func osKind(kind string, ofs avfs.VFS, bp string) (o wgOps, ok bool) {
	defer func() {
		if r := recover(); r != nil {
			ok = false
		}
	}()
	switch kind {
	case "osfs":
		return vfsOps(ofs), true
	case "os-rofs":
		return vfsOps(rofs.New(ofs)), true
	case "os-failfs":
		return vfsOps(failfs.New(ofs)), true
	case "os-basepathfs":
		return vfsOps(basepathfs.New(ofs, bp)), true
	}
	panic("kind " + kind)
}

// walkglobos: avfs over the REAL file system.  The tree of a MemFS history (plus /big: 40 entries created in a shuffled
// order) is materialised in a chroot on tmpfs in a scrambled creation order; the queries are answered by avfs through
// OsFS and through RoFS / FailFS(OkFunc) / BasePathFS over OsFS (<name>.observed), by filepath.WalkDir / filepath.Glob /
// os.ReadDir in the same chroot (<name>.oracle; for BasePathFS through the base path), and by the model of vfs.go
// over the MemFS model of the same tree (ml/driver walkglob), whose ReadDir sorts whatever order the file returns.
func runWalkGlobOS(cfg config) {
	runtime.LockOSThread()
	os.Unsetenv("PWD")
	wgBig = true
	o := newOut(cfg.dir, cfg.name)
	defer o.close(cfg.name)
	fora, err := os.Create(filepath.Join(cfg.dir, cfg.name+".oracle"))
	if err != nil {
		panic(err)
	}
	defer fora.Close()
	scratch := fmt.Sprintf("/dev/shm/verif-%d", os.Getpid())
	defer os.RemoveAll(scratch)
	ofs := osfs.New() // outside the chroot: its identity manager reads the host's user database once
	cr := checkRestFlag()
	jn := 0
	session := func(w *fsWorld, snap []snapEntry, user [3]int, cwd string, f func()) bool {
		jn++
		j := enterJail(fmt.Sprintf("%s/t%d", scratch, jn))
		defer j.leave()
		materialise(w, snap)
		u, m := rawUnsorted(snap)
		o.dist["dirs-with-2+-entries"] += m
		o.dist["dirs-listed-unsorted-by-the-kernel"] += u
		setThreadIdentity(user[0], user[1])
		if cwd != "/" {
			if err := os.Chdir(cwd); err != nil {
				return false
			}
		}
		f()
		return true
	}
	// every query is executed on this (locked, re-identified) thread: no helper goroutine
	evalBoth := func(ao, ho wgOps, qs []string) (obs, ora []string) {
		for _, q := range qs {
			obs = append(obs, ao.query(q))
			ora = append(ora, ho.query(q))
		}
		return
	}
	if rl := cfg.replayLines(); rl != nil {
		for _, l := range rl {
			hd, ops, qs := replayCase(l)
			mhd := append([]string{"memfs"}, hd[1:]...)
			_, w, ok := buildWorld(append(mhd[:3:3], "-"), ops)
			if !ok {
				o.emit(l, "BUILDFAILED", "")
				fora.WriteString("BUILDFAILED\n")
				continue
			}
			user := [3]int{0, 0, 1}
			for _, op := range ops {
				t := strings.Fields(op)
				if t[0] == "SU" {
					user = [3]int{atoi(t[2]), atoi(t[3]), atoi(t[4])}
				}
			}
			cwd, err := w.views[0].Getwd()
			if err != nil {
				cwd = "/"
			}
			bp := ""
			if hd[3] != "-" {
				bp = untok(hd[3])
			}
			var obs, ora []string
			valid := true
			ok = session(w, w.snapshotEntries(), user, cwd, func() {
				ao, k := osKind(hd[0], ofs, bp)
				if !k {
					valid = false
					return
				}
				ho := hostOps()
				if hd[0] == "os-basepathfs" {
					ho = hostOpsAt(bp)
				}
				obs, ora = evalBoth(ao, ho, qs)
			})
			if !ok || !valid {
				o.emit(l, "INVALID", "")
				fora.WriteString("INVALID\n")
				continue
			}
			o.emit(l, strings.Join(obs, " | "), "")
			fora.WriteString(strings.Join(ora, " | ") + "\n")
		}
		return
	}
	ntrees, hl, maxSeg, maxPaths := 12, 25, 2, 5
	if cfg.tier == "thorough" {
		ntrees, hl, maxSeg, maxPaths = 60, 40, 2, 10
	}
	o.rule = fmt.Sprintf("%d trees built by random MemFS histories of %d calls plus the directory /big (40 files and sub-directories created in a shuffled order), materialised in a chroot on tmpfs in a scrambled creation order (the kernel lists the directories unsorted: counted under dirs-listed-unsorted-by-the-kernel); ReadDir / WalkDir (always-nil callback and SkipDir, SkipAll, custom error at every invocation index) / Glob on clean operands answered by avfs through OsFS, RoFS(OsFS), FailFS(OsFS, OkFunc), BasePathFS(OsFS, base path = /big or another directory; absolute operands), by filepath.WalkDir / filepath.Glob / os.ReadDir in the same chroot as the acting identity, and by the extracted model of vfs.go (whose ReadDir sorts any listing order) over the MemFS model of the same tree", ntrees, hl)
	r := &rng{s: cfg.seed*49979687 + 3}
	kinds := []string{"osfs", "os-basepathfs", "os-failfs", "os-rofs"}
	nq := 0
	for i := 0; i < ntrees; i++ {
		var t *wgTree
		for t == nil {
			t = genTree(r, hl, i%3, true)
		}
		mo := vfsOps(t.w.views[0])
		okc := session(t.w, t.snap, t.user, t.cwd, func() {
			for ki, kind := range kinds {
				if ki > 0 && (i+ki)%2 == 0 { // OsFS on every tree, the wrappers on every second one each
					continue
				}
				bp := "-"
				t2 := t
				absOnly := false
				ho := hostOps()
				bpath := ""
				if kind == "os-basepathfs" {
					bpath = "/big"
					if i%4 == 3 {
						var dirs []string
						for _, e := range t.snap {
							if e.kind == 'D' && e.path != "/" {
								dirs = append(dirs, e.path)
							}
						}
						bpath = dirs[r.intn(len(dirs))]
					}
					if _, err := os.Stat(bpath); err != nil {
						continue
					}
					bp = tok(bpath)
					absOnly = true
					ho = hostOpsAt(bpath)
					t2 = &wgTree{um: t.um, ops: t.ops, w: t.w, user: t.user, cwd: t.cwd}
					for _, e := range t.snap {
						if e.path == bpath {
							t2.snap = append(t2.snap, snapEntry{path: "/", kind: e.kind})
						} else if strings.HasPrefix(e.path, bpath+"/") {
							t2.snap = append(t2.snap, snapEntry{path: e.path[len(bpath):], kind: e.kind})
						}
					}
				}
				ao, k := osKind(kind, ofs, bpath)
				if !k {
					continue
				}
				o.count("kind:" + kind)
				// the number of invocations is learnt from the MemFS implementation (BasePathFS: from the host through the base path)
				lo := mo
				if kind == "os-basepathfs" {
					lo = ho
				}
				qs := t2.queries(r, lo, maxSeg, maxPaths, absOnly, &ho)
				var keep []string
				for _, q := range qs {
					if !strings.HasPrefix(q, "Q H ") && inUniverseC14(untok(strings.Fields(q)[2])) {
						keep = append(keep, q)
					}
				}
				nq += len(keep)
				hdr := fmt.Sprintf("%s %s %d %s", kind, cr, t.um, bp)
				emitBatches(o, hdr, t.ops, keep, func(q string) string { return ao.query(q) },
					func(_ string, batch []string) {
						var os_ []string
						for _, q := range batch {
							os_ = append(os_, ho.query(q))
						}
						fora.WriteString(strings.Join(os_, " | ") + "\n")
					})
			}
		})
		if !okc {
			o.count("oracle-cwd-refused")
		}
	}
	o.extra["evaluations"] = nq
	o.extra["trees"] = ntrees
	o.extra["kernel"] = kernelKnobs()
}

func runWalkGlobOracle(cfg config) {
	runtime.LockOSThread()
	os.Unsetenv("PWD")
	o := newOut(cfg.dir, cfg.name)
	defer o.close(cfg.name)
	fora, err := os.Create(filepath.Join(cfg.dir, cfg.name+".oracle"))
	if err != nil {
		panic(err)
	}
	defer fora.Close()
	scratch := fmt.Sprintf("/dev/shm/verif-%d", os.Getpid())
	defer os.RemoveAll(scratch)
	cr := checkRestFlag()
	jn := 0
	// runs the queries in a chroot holding the materialised tree, as the acting identity, from the working directory
	oracle := func(w *fsWorld, snap []snapEntry, user [3]int, cwd string, f func(o wgOps)) bool {
		jn++
		j := enterJail(fmt.Sprintf("%s/t%d", scratch, jn))
		defer j.leave()
		materialise(w, snap)
		setThreadIdentity(user[0], user[1])
		if cwd != "/" { // enterJail left the process in "/" (no search permission is needed to stay there)
			if err := os.Chdir(cwd); err != nil {
				return false
			}
		}
		f(hostOps())
		return true
	}
	if rl := cfg.replayLines(); rl != nil {
		for _, l := range rl {
			hd, ops, qs := replayCase(l)
			wo, w, ok := buildWorld(hd, ops)
			if !ok {
				o.emit(l, "BUILDFAILED", "")
				fora.WriteString("BUILDFAILED\n")
				continue
			}
			user := [3]int{0, 0, 1}
			for _, op := range ops {
				t := strings.Fields(op)
				if t[0] == "SU" {
					user = [3]int{atoi(t[2]), atoi(t[3]), atoi(t[4])}
				}
			}
			cwd, err := w.views[0].Getwd() // where the history (possibly shrunk) actually left MemFS
			if err != nil {
				cwd = "/"
			}
			var rs, os_ []string
			for _, q := range qs {
				rs = append(rs, projOracle(guardedQuery(wo, q)))
			}
			ok = oracle(w, w.snapshotEntries(), user, cwd, func(ho wgOps) {
				for _, q := range qs {
					os_ = append(os_, projOracle(ho.query(q)))
				}
			})
			if !ok { // the kernel refuses the working directory (a shrunk history may leave it behind a loop): not a case
				o.emit(l, "INVALID", "")
				fora.WriteString("INVALID\n")
				continue
			}
			o.emit(l, strings.Join(rs, " | "), "")
			fora.WriteString(strings.Join(os_, " | ") + "\n")
		}
		return
	}
	ntrees, hl, maxSeg, maxPaths := 30, 30, 2, 7
	if cfg.tier == "thorough" {
		ntrees, hl, maxSeg, maxPaths = 80, 45, 3, 12
	}
	o.rule = fmt.Sprintf("%d trees built by random MemFS histories of %d calls on lexically clean paths, materialised (directories, files, symbolic links, permission bits, owners) in a chroot on tmpfs; the same queries as the walkglob stream (without the avfs-only helpers) answered by filepath.WalkDir / filepath.Glob / os.ReadDir there as the acting identity (setfsuid/setfsgid/setgroups of the calling thread) from the same working directory; compared with avfs on MemFS (O) and with the Go reference algorithms go_walk_dir/go_glob over the Linux specification model Posix.v (B)", ntrees, hl)
	r := &rng{s: cfg.seed*32452843 + 5}
	nq := 0
	for i := 0; i < ntrees; i++ {
		var t *wgTree
		for t == nil {
			t = genTree(r, hl, i%3, true)
		}
		hdr := fmt.Sprintf("memfs %s %d -", cr, t.um)
		mo := vfsOps(t.w.views[0])
		okc := oracle(t.w, t.snap, t.user, t.cwd, func(ho wgOps) {
			qs := t.queries(r, mo, maxSeg, maxPaths, false, &ho)
			var keep []string
			for _, q := range qs {
				if !strings.HasPrefix(q, "Q H ") && inUniverseC14(untok(strings.Fields(q)[2])) {
					keep = append(keep, q)
				}
			}
			nq += len(keep)
			emitBatches(o, hdr, t.ops, keep, func(q string) string { return projOracle(guardedQuery(mo, q)) },
				func(_ string, batch []string) {
					var os_ []string
					for _, q := range batch {
						os_ = append(os_, projOracle(ho.query(q)))
					}
					fora.WriteString(strings.Join(os_, " | ") + "\n")
				})
		})
		if !okc {
			o.count("oracle-cwd-refused")
		}
	}
	o.extra["evaluations"] = nq
	o.extra["trees"] = ntrees
	o.extra["kernel"] = kernelKnobs()
}

// inUniverseC14: the operands the ORACLE stream quantifies over are those of C01's universe (DESIGN 5 C01): non-empty
// and lexically clean (a pattern is cleaned like a path: the magic characters are ordinary bytes for Clean).  avfs
// resolves a name after cleaning it lexically, Linux resolves "..", "." and a trailing separator physically; that
// difference belongs to the namespace properties (C01/C04), not to the enumeration composites, which the A stream
// exercises on every spelling.
func inUniverseC14(p string) bool { return p != "" && filepath.Clean(p) == p }

// projOracle: the error of ReadDir is compared by kind only where it is an errno (both worlds print L<errno>)
func projOracle(s string) string { return s }

var _ = sort.Strings
var _ = strconv.Itoa
