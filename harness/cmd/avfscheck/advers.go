package main

// Adversarial argument smoke run for C07 (implementation only, no model): every file system of the library is
// called with extreme arguments (huge / negative sizes and offsets, counts of math.MaxInt, nil and closed handles,
// the root, a directory and its own descendant, empty and relative paths); each call must RETURN without panicking
// (the only sanctioned panic: File.Name on a nil handle). Writes <name>.advers.json; exit status 3 when a call
// panicked or did not return.

import (
	"encoding/json"
	"fmt"
	"io"
	"io/fs"
	"math"
	"os"
	"path/filepath"
	"time"

	"github.com/avfs/avfs"
	"github.com/avfs/avfs/idm/memidm"
	"github.com/avfs/avfs/vfs/basepathfs"
	"github.com/avfs/avfs/vfs/failfs"
	"github.com/avfs/avfs/vfs/memfs"
	"github.com/avfs/avfs/vfs/orefafs"
	"github.com/avfs/avfs/vfs/rofs"
)

func init() { commands["advers"] = runAdvers }

type advCase struct {
	fs, call string
	f        func()
}

func runAdvers(cfg config) {
	big := []int64{math.MaxInt64, math.MaxInt64 - 1, 1 << 62, (1 << 47) + 1, -1, math.MinInt64} // sizes the machine cannot allocate but the runtime accepts (RAM .. 1<<47) are a listed finding: not tried here
	mk := map[string]func() avfs.VFS{
		"memfs":   func() avfs.VFS { return memfs.New() },
		"orefafs": func() avfs.VFS { return orefafs.New() },
		"rofs":    func() avfs.VFS { return rofs.New(memfs.New()) },
		"failfs":  func() avfs.VFS { return failfs.New(memfs.New()) },
		"basepathfs": func() avfs.VFS {
			b := memfs.New()
			_ = b.MkdirAll("/base/d", 0o755)
			return basepathfs.New(b, "/base")
		},
	}
	var cases []advCase
	for name, newFS := range mk {
		name, newFS := name, newFS
		add := func(call string, f func(v avfs.VFS)) {
			cases = append(cases, advCase{fs: name, call: call, f: func() { f(newFS()) }})
		}
		for _, x := range big {
			x := x
			add(fmt.Sprintf("Truncate(path,%d)", x), func(v avfs.VFS) { _ = v.WriteFile("/tmp/f", []byte("abc"), 0o644); _ = v.Truncate("/tmp/f", x) })
			add(fmt.Sprintf("File.Truncate(%d)", x), func(v avfs.VFS) {
				f, err := v.OpenFile("/tmp/f", os.O_CREATE|os.O_RDWR, 0o644)
				if err == nil {
					_ = f.Truncate(x)
					f.Close()
				}
			})
			add(fmt.Sprintf("WriteAt(b,%d)", x), func(v avfs.VFS) {
				f, err := v.OpenFile("/tmp/f", os.O_CREATE|os.O_RDWR, 0o644)
				if err == nil {
					_, _ = f.WriteAt([]byte("xy"), x)
					_, _ = f.ReadAt(make([]byte, 2), x)
					f.Close()
				}
			})
			for _, wh := range []int{0, 1, 2, 3, -1} {
				wh := wh
				add(fmt.Sprintf("Seek(%d,%d);Write;Read", x, wh), func(v avfs.VFS) {
					f, err := v.OpenFile("/tmp/f", os.O_CREATE|os.O_RDWR, 0o644)
					if err == nil {
						_, _ = f.Write([]byte("abc"))
						_, _ = f.Seek(x, wh)
						_, _ = f.Write([]byte("z"))
						_, _ = f.Read(make([]byte, 4))
						f.Close()
					}
				})
			}
		}
		for _, n := range []int{math.MaxInt, math.MaxInt - 1, math.MinInt, -1, 0} {
			n := n
			add(fmt.Sprintf("ReadDir(1);ReadDir(%d);Readdirnames(%d)", n, n), func(v avfs.VFS) {
				_ = v.MkdirAll("/tmp/d/x", 0o755)
				_ = v.WriteFile("/tmp/d/f", nil, 0o644)
				f, err := v.Open("/tmp/d")
				if err == nil {
					_, _ = f.ReadDir(1)
					_, _ = f.ReadDir(n)
					_, _ = f.Readdirnames(1)
					_, _ = f.Readdirnames(n)
					f.Close()
				}
			})
		}
		add("closed handle: every method", func(v avfs.VFS) {
			f, err := v.OpenFile("/tmp/f", os.O_CREATE|os.O_RDWR, 0o644)
			if err != nil {
				return
			}
			f.Close()
			_, _ = f.Read(make([]byte, 1))
			_, _ = f.ReadAt(make([]byte, 1), 0)
			_, _ = f.Write([]byte("a"))
			_, _ = f.WriteAt([]byte("a"), 0)
			_, _ = f.WriteString("a")
			_, _ = f.Seek(0, io.SeekStart)
			_ = f.Truncate(0)
			_, _ = f.Stat()
			_ = f.Sync()
			_ = f.Chmod(0o600)
			_ = f.Chown(0, 0)
			_ = f.Chdir()
			_, _ = f.ReadDir(-1)
			_, _ = f.Readdirnames(-1)
			_ = f.Name()
			_ = f.Fd()
			_ = f.Close()
		})
		add("aliasing operands", func(v avfs.VFS) {
			_ = v.MkdirAll("/tmp/a/b/c", 0o755)
			_ = v.WriteFile("/tmp/a/f", []byte("x"), 0o644)
			for _, p := range [][2]string{{"/", "/tmp/x"}, {"/tmp/a", "/tmp/a/b/c/d"}, {"/tmp/a", "/tmp/a"}, {"/tmp/a/f", "/tmp/a/f"}, {"/tmp/a/f", "/tmp/a/f/x"},
				{"", ""}, {"", "/tmp/y"}, {"/tmp/a", ""}, {".", ".."}, {"..", "."}, {"/tmp/a/b", "/"}, {"/tmp/a/f", "/tmp/a"}} {
				_ = v.Rename(p[0], p[1])
				_ = v.Link(p[0], p[1])
				_ = v.Symlink(p[0], p[1])
			}
			for _, p := range []string{"/", "", ".", "..", "/tmp/a/f/x", "/tmp/a/b/c/../../..", "relative/path", "/\x00", "\\", "C:\\", "//"} {
				_ = v.Remove(p)
				_ = v.RemoveAll(p)
				_ = v.Mkdir(p, 0o755)
				_ = v.MkdirAll(p, 0o755)
				_, _ = v.Stat(p)
				_, _ = v.Lstat(p)
				_, _ = v.ReadDir(p)
				_, _ = v.ReadFile(p)
				_ = v.WriteFile(p, []byte("x"), 0o644)
				_ = v.Chdir(p)
				_ = v.Chmod(p, 0o777)
				_ = v.Chown(p, -1, -1)
				_ = v.Lchown(p, math.MaxInt, math.MinInt)
				_ = v.Chtimes(p, time.Time{}, time.Time{})
				_ = v.Truncate(p, 0)
				_, _ = v.Readlink(p)
				_, _ = v.EvalSymlinks(p)
				_, _ = v.Glob(p)
				_, _ = v.Sub(p)
				_, _ = v.Abs(p)
				_ = v.WalkDir(p, func(string, fs.DirEntry, error) error { return nil })
				_, _ = v.CreateTemp(p, "x*")
				_, _ = v.MkdirTemp(p, "x*")
				_, _ = v.OpenFile(p, -1, 0o644)
				_, _ = v.OpenFile(p, math.MaxInt, fs.FileMode(math.MaxUint32))
			}
		})
	}
	// identity manager
	cases = append(cases, advCase{fs: "memidm", call: "odd names", f: func() {
		idm := memidm.New()
		for _, n := range []string{"", "root", "\x00", "a/b", string(make([]byte, 70000))} {
			_, _ = idm.AddGroup(n)
			_, _ = idm.AddUser(n, n)
			_, _ = idm.AddUser(n, "root")
			_, _ = idm.LookupUser(n)
			_, _ = idm.LookupGroup(n)
			_ = idm.DelUser(n)
			_ = idm.DelGroup(n)
		}
		for _, i := range []int{-1, 0, math.MaxInt, math.MinInt} {
			_, _ = idm.LookupUserId(i)
			_, _ = idm.LookupGroupId(i)
		}
	}})
	type result struct {
		FS, Call, Outcome string
	}
	var bad []result
	n := 0
	for _, c := range cases {
		done := make(chan string, 1)
		go func(c advCase) {
			defer func() {
				if r := recover(); r != nil {
					done <- fmt.Sprintf("PANIC: %v", r)
				}
			}()
			c.f()
			done <- "returned"
		}(c)
		select {
		case o := <-done:
			if o != "returned" {
				bad = append(bad, result{c.fs, c.call, o})
			}
		case <-time.After(10 * time.Second):
			bad = append(bad, result{c.fs, c.call, "DID NOT RETURN within 10 s"})
		}
		n++
	}
	b, _ := json.MarshalIndent(map[string]any{"cases": n, "failures": bad}, "", " ")
	_ = os.WriteFile(filepath.Join(cfg.dir, cfg.name+".advers.json"), b, 0o644)
	if len(bad) > 0 {
		os.Exit(3)
	}
}
