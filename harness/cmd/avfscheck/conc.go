//go:build verif

// C06 / C07 (concurrent part): systematic exploration of schedules of concurrent
// namespace calls on the real, overlay-instrumented code.
//
// Case line (what the extracted Coq model of Conc/MemConc.v reads):
//
//	<fs> | <tree> | <rand streams> | <programs> | <schedule>
//
// Observed line (what the model prints for the same case):
//
//	<status> | <results> | <lock traces> | <final tree>
package main

import (
	"encoding/json"
	"fmt"
	"os"
	"path/filepath"
	"sort"
	"strconv"
	"strings"

	"verifharness/sched"

	"github.com/avfs/avfs"
	"github.com/avfs/avfs/vfs/memfs"
	"github.com/avfs/avfs/vfs/orefafs"
	"github.com/avfs/avfs/zzverif/vsync"
)

func init() { commands["conc"] = runConc; commands["lockprog"] = runLockProg }

// lockprog: the acquire/release sequence of single calls run alone (tie of the hand-transcribed lock
// programs of Conc/LockProg.v, used by the C07 refutations for OrefaFS, to the real code).
// case: <fs> | <call> ; observed: AW0 AW2 rW2 rW0 ...
var lockProgCalls = []string{
	"orefafs | mkdir /a/x", "orefafs | create /a/x", "orefafs | remove /a/f", "orefafs | rename /b/g /a/x",
	"orefafs | rename /a/f /a/x", "orefafs | rename /a/f /b/x", "orefafs | link /a/f /b/x",
	"memfs | rename /a/f /b/x", "memfs | rename /b/g /a/x",
}

func runLockProg(cfg config) {
	o := newOut(cfg.dir, cfg.name)
	lines := cfg.replayLines()
	if lines == nil {
		lines = lockProgCalls
	}
	for _, l := range lines {
		f := strings.SplitN(l, " | ", 2)
		p := cprog{fsname: strings.TrimSpace(f[0]), threads: [][]ccall{{parseCall(f[1])}}, rand: randFor(1)}
		e := p.runWith(defaultChoice)
		o.emit(l, strings.Join(e.s.Threads[0].Events, " "), l)
	}
	o.rule = "every call of the lock-program table run alone under the scheduler; its acquire/release sequence and result equal the table entry of Conc/LockProg.v"
	o.close(cfg.name)
}

// ---- calls ---------------------------------------------------------------------------

type ccall struct {
	op   string
	args []string // clean absolute paths: what the model, the oracle's classification and the report see
	raw  []string // optional: the spelling handed to the implementation ("@<spelling>" tokens of the case line)
}

func (c ccall) String() string {
	s := c.op + " " + strings.Join(c.args, " ")
	for _, r := range c.raw {
		s += " @" + r
	}
	return s
}

func parseCall(s string) ccall {
	c := ccall{}
	for i, f := range strings.Fields(s) {
		switch {
		case i == 0:
			c.op = f
		case strings.HasPrefix(f, "@"):
			c.raw = append(c.raw, f[1:])
		default:
			c.args = append(c.args, f)
		}
	}
	return c
}

func concRes(err error) string {
	if err == nil {
		return "ok"
	}
	return errCode(err)
}

// run executes the call on the view v; t is the running thread (for the temp-name stream).
func (c ccall) run(v avfs.VFS, t *sched.Thread) string {
	a := c.args
	if len(c.raw) == len(c.args) {
		a = c.raw
	}
	switch c.op {
	case "mkdir":
		return concRes(v.Mkdir(a[0], 0o755))
	case "create":
		_, err := v.OpenFile(a[0], os.O_RDWR|os.O_CREATE|os.O_EXCL, 0o644)
		return concRes(err)
	case "remove":
		return concRes(v.Remove(a[0]))
	case "rename":
		return concRes(v.Rename(a[0], a[1]))
	case "link":
		return concRes(v.Link(a[0], a[1]))
	case "symlink":
		return concRes(v.Symlink(a[0], a[1]))
	case "mkdirall":
		return concRes(v.MkdirAll(a[0], 0o755))
	case "removeall":
		return concRes(v.RemoveAll(a[0]))
	case "createtemp":
		_, err := v.CreateTemp(a[0], a[1])
		if err != nil {
			return concRes(err)
		}
		return "ok:" + a[0] + "/" + a[1] + t.LastRand
	case "mkdirtemp":
		n, err := v.MkdirTemp(a[0], a[1])
		if err != nil {
			return concRes(err)
		}
		return "ok:" + n
	}
	panic("conc: unknown call " + c.op)
}

// ---- worlds ----------------------------------------------------------------------------

// cworld is one fresh file system with its lock namer.
type cworld struct {
	fsname string
	mem    *memfs.MemFS
	ore    *orefafs.OrefaFS
	ids    map[*vsync.RWMutex]int
	next   int
	isDir  map[int]bool
	known  []any // MemFS nodes seen so far, in id order (extra roots of the dump: detached nodes keep their subtrees)
}

// the initial tree: setup calls executed sequentially, uninstrumented
var concSetup = []string{"mkdir /a", "mkdir /a/d", "create /a/f", "mkdir /b", "create /b/g"}

func newCWorld(fsname string) *cworld {
	w := &cworld{fsname: fsname, ids: map[*vsync.RWMutex]int{}, isDir: map[int]bool{}}
	sys := []avfs.DirInfo{{Path: "/tmp", Perm: 0o777}}
	var base avfs.VFS
	switch fsname {
	case "memfs":
		w.mem = memfs.NewWithOptions(&memfs.Options{SystemDirs: sys})
		base = w.mem
	case "orefafs":
		w.ore = orefafs.NewWithOptions(&orefafs.Options{SystemDirs: sys})
		base = w.ore
	default:
		panic("conc: unknown file system " + fsname)
	}
	for _, s := range concSetup {
		if r := parseCall(s).run(base, nil); r != "ok" {
			panic("conc: setup call " + s + " failed: " + r)
		}
	}
	w.refresh()
	return w
}

// view returns the file system a thread works on: its own Sub("/") view of the shared
// MemFS, or the shared OrefaFS itself.
func (w *cworld) view() avfs.VFS {
	if w.mem != nil {
		v, err := w.mem.Sub("/")
		if err != nil {
			panic(err)
		}
		return v
	}
	return w.ore
}

// refresh gives ids to the locks of nodes not seen before (sorted pre-order of the dump;
// for OrefaFS the index lock is 0).
func (w *cworld) refresh() {
	if w.mem != nil {
		nodes, _ := memfs.VerifDump(w.mem, w.known)
		for _, n := range nodes {
			if _, ok := w.ids[n.Mu]; !ok {
				w.ids[n.Mu] = w.next
				w.isDir[w.next] = n.Kind == 'D'
				w.next++
				w.known = append(w.known, n.Ref)
			}
		}
		return
	}
	mu, _, nodes := orefafs.VerifDump(w.ore)
	if _, ok := w.ids[mu]; !ok {
		w.ids[mu] = w.next
		w.next++
	}
	for _, n := range nodes {
		if _, ok := w.ids[n.Mu]; !ok {
			w.ids[n.Mu] = w.next
			w.next++
		}
	}
}

// Sync implements sched.Namer.
func (w *cworld) Sync() { w.refresh() }

// Name implements sched.Namer.
func (w *cworld) Name(m *vsync.RWMutex) int {
	w.refresh()
	id, ok := w.ids[m]
	if !ok { // a lock that is not a node of the tree (a file handle): numbered from 1000
		id = 1000 + w.next
		w.ids[m] = id
		w.next++
	}
	return id
}

// snapshot prints the tree. withIDs: node labels are the lock ids (the model must agree on
// them); otherwise the labels are positions in the sorted pre-order (canonical: two trees
// print alike iff they are isomorphic including hard-link sharing and link counts).
func (w *cworld) snapshot(withIDs bool) string {
	w.refresh()
	var sb strings.Builder
	if w.mem != nil {
		d, reach := memfs.VerifDump(w.mem, nil)
		d = d[:reach]
		lab := func(i int) int {
			if withIDs {
				return w.ids[d[i].Mu]
			}
			return i
		}
		for i, n := range d {
			if i > 0 {
				sb.WriteByte(' ')
			}
			fmt.Fprintf(&sb, "%d:", lab(i))
			switch n.Kind {
			case 'D':
				sb.WriteString("D[")
				for j, c := range n.Children {
					if j > 0 {
						sb.WriteByte(',')
					}
					fmt.Fprintf(&sb, "%s=%d", c.Name, lab(c.Node))
				}
				sb.WriteByte(']')
			case 'F':
				fmt.Fprintf(&sb, "F%d", n.Nlink)
			case 'L':
				fmt.Fprintf(&sb, "L%s", n.Link)
			}
		}
		return sb.String()
	}
	_, idx, nodes := orefafs.VerifDump(w.ore)
	lab := func(i int) int {
		if withIDs {
			return w.ids[nodes[i].Mu]
		}
		return i
	}
	sb.WriteString("index{")
	for j, e := range idx {
		if j > 0 {
			sb.WriteByte(',')
		}
		p := e.Path
		if p == "" {
			p = "/"
		}
		fmt.Fprintf(&sb, "%s=%d", p, lab(e.Node))
	}
	sb.WriteString("}")
	for i, n := range nodes {
		fmt.Fprintf(&sb, " %d:", lab(i))
		if n.Dir {
			sb.WriteString("D[")
			for j, c := range n.Children {
				if j > 0 {
					sb.WriteByte(',')
				}
				fmt.Fprintf(&sb, "%s=%d", c.Name, lab(c.Node))
			}
			sb.WriteByte(']')
		} else {
			fmt.Fprintf(&sb, "F%d", n.Nlink)
		}
	}
	return sb.String()
}

// ---- programs and executions ---------------------------------------------------------------

type cprog struct {
	fsname  string
	threads [][]ccall
	rand    [][]string
}

func (p cprog) progText() string {
	var ts []string
	for _, th := range p.threads {
		var cs []string
		for _, c := range th {
			cs = append(cs, c.String())
		}
		ts = append(ts, strings.Join(cs, " , "))
	}
	return strings.Join(ts, " ; ")
}

func (p cprog) randText() string {
	var ts []string
	for _, r := range p.rand {
		if len(r) == 0 {
			ts = append(ts, "-")
		} else {
			ts = append(ts, strings.Join(r, ","))
		}
	}
	return strings.Join(ts, " ; ")
}

// cexec is the outcome of one execution.
type cexec struct {
	w        *cworld
	s        *sched.S
	initial  string
	final    string // with ids
	canon    string // canonical
	enabled  [][]int
}

func (p cprog) start() *cexec {
	w := newCWorld(p.fsname)
	e := &cexec{w: w, initial: w.snapshot(true)}
	var ths []*sched.Thread
	for i, calls := range p.threads {
		t := &sched.Thread{}
		if i < len(p.rand) {
			t.Rand = p.rand[i]
		}
		v := w.view()
		for _, c := range calls {
			c := c
			t.Calls = append(t.Calls, func() string { return c.run(v, t) })
		}
		ths = append(ths, t)
	}
	e.s = sched.New(w, ths)
	return e
}

func (e *cexec) finish() {
	e.final = e.w.snapshot(true)
	e.canon = e.w.snapshot(false)
}

// runWith executes the program under a chooser, recording the enabled sets.
func (p cprog) runWith(choose func(enabled []int, last int) int) *cexec {
	e := p.start()
	e.s.Run(func(en []int, last int) int {
		e.enabled = append(e.enabled, append([]int(nil), en...))
		return choose(en, last)
	})
	e.finish()
	return e
}

func (e *cexec) status() string {
	if e.s.Deadlock {
		return "deadlock " + strings.Join(e.s.Blocked, " ")
	}
	return "done"
}

func (e *cexec) resultsText() string {
	var ts []string
	for _, t := range e.s.Threads {
		ts = append(ts, strings.Join(t.Results, ","))
	}
	return strings.Join(ts, " ; ")
}

func (e *cexec) tracesText() string {
	var ts []string
	for _, t := range e.s.Threads {
		var cs []string
		for _, tr := range t.Traces {
			var as []string
			for _, a := range tr {
				as = append(as, a.String())
			}
			if len(as) == 0 {
				as = []string{"-"}
			}
			cs = append(cs, strings.Join(as, "."))
		}
		ts = append(ts, strings.Join(cs, ","))
	}
	return strings.Join(ts, " ; ")
}

func (e *cexec) observed() string {
	return e.status() + " | " + e.resultsText() + " | " + e.tracesText() + " | " + e.final
}

func schedText(s []int) string {
	if len(s) == 0 {
		return "-"
	}
	var xs []string
	for _, x := range s {
		xs = append(xs, strconv.Itoa(x))
	}
	return strings.Join(xs, " ")
}

func (p cprog) caseLine(initial string, schedule []int) string {
	return p.fsname + " | " + initial + " | " + p.randText() + " | " + p.progText() + " | " + schedText(schedule)
}

func parseCase(line string) (cprog, []int) {
	f := strings.Split(line, " | ")
	if len(f) != 5 {
		panic("conc: bad case line: " + line)
	}
	p := cprog{fsname: strings.TrimSpace(f[0])}
	for _, r := range strings.Split(f[2], " ; ") {
		r = strings.TrimSpace(r)
		if r == "-" || r == "" {
			p.rand = append(p.rand, nil)
		} else {
			p.rand = append(p.rand, strings.Split(r, ","))
		}
	}
	for _, th := range strings.Split(f[3], " ; ") {
		var cs []ccall
		for _, c := range strings.Split(th, " , ") {
			if strings.TrimSpace(c) != "" {
				cs = append(cs, parseCall(c))
			}
		}
		p.threads = append(p.threads, cs)
	}
	var sc []int
	for _, x := range strings.Fields(f[4]) {
		if x == "-" {
			continue
		}
		i, err := strconv.Atoi(x)
		if err != nil {
			panic(err)
		}
		sc = append(sc, i)
	}
	return p, sc
}

// ---- sequential orders: the linearizability oracle -------------------------------------------

type callRef struct{ t, c int }

type seqOutcome struct {
	order   []callRef
	results string
	canon   string
	status  string
}

// sequentialOutcomes runs every order of the calls that respects each thread's program
// order on a fresh instance, one call at a time.
func (p cprog) sequentialOutcomes() []seqOutcome {
	var outs []seqOutcome
	n := len(p.threads)
	pos := make([]int, n)
	var order []callRef
	var rec func()
	rec = func() {
		done := true
		for t := 0; t < n; t++ {
			if pos[t] < len(p.threads[t]) {
				done = false
				order = append(order, callRef{t, pos[t]})
				pos[t]++
				rec()
				pos[t]--
				order = order[:len(order)-1]
			}
		}
		if done {
			outs = append(outs, p.runOrder(append([]callRef(nil), order...)))
		}
	}
	rec()
	return outs
}

func (p cprog) runOrder(order []callRef) seqOutcome {
	e := p.start()
	e.s.Start()
	stuck := false
	for _, r := range order {
		t := e.s.Threads[r.t]
		for t.Resp[r.c] < 0 {
			if !e.s.Step(r.t) {
				stuck = true
				break
			}
		}
		if stuck {
			break
		}
	}
	e.s.Finish()
	e.finish()
	return seqOutcome{order: order, results: e.resultsText(), canon: e.canon, status: e.status()}
}

// linearization returns an order whose sequential outcome equals the concurrent one and
// respects real time (a call that returned before another was granted its first lock comes first).
func linearization(e *cexec, seqs []seqOutcome) *seqOutcome {
	res := e.resultsText()
	for i := range seqs {
		so := &seqs[i]
		if so.status != "done" || so.results != res || so.canon != e.canon {
			continue
		}
		where := map[callRef]int{}
		for k, r := range so.order {
			where[r] = k
		}
		ok := true
		for _, a := range so.order {
			for _, b := range so.order {
				ta, tb := e.s.Threads[a.t], e.s.Threads[b.t]
				if ta.Resp[a.c] >= 0 && tb.Inv[b.c] >= 0 && ta.Resp[a.c] < tb.Inv[b.c] && where[a] > where[b] {
					ok = false
				}
			}
		}
		if ok {
			return so
		}
	}
	return nil
}

// ---- exploration ---------------------------------------------------------------------------------

// defaultChoice continues the last thread when it is enabled (no preemption), else the lowest enabled.
func defaultChoice(en []int, last int) int {
	for _, x := range en {
		if x == last {
			return x
		}
	}
	return en[0]
}

// divergedReplays counts executions whose schedule prefix could not be followed: the only source
// of non-determinism under the scheduler is the map iteration order of MemFS.removeAll.
var divergedReplays int

func prefixChooser(prefix []int, diverged *bool) func(en []int, last int) int {
	pos := 0
	return func(en []int, last int) int {
		if pos < len(prefix) && !*diverged {
			c := prefix[pos]
			pos++
			for _, x := range en {
				if x == c {
					return c
				}
			}
			*diverged = true
			divergedReplays++
		}
		return defaultChoice(en, last)
	}
}

func isIn(x int, xs []int) bool {
	for _, y := range xs {
		if x == y {
			return true
		}
	}
	return false
}

// explore visits every schedule of p with at most bound preemptions (a preemption = switching
// away from a thread that could have continued).  Each schedule is executed exactly once.
func explore(p cprog, bound int, limit int, visit func(e *cexec)) (count int) {
	var rec func(prefix []int, used int)
	rec = func(prefix []int, used int) {
		if limit > 0 && count >= limit {
			return
		}
		diverged := false
		e := p.runWith(prefixChooser(prefix, &diverged))
		count++
		visit(e)
		if diverged {
			return // still a legal execution (checked above), but not the one asked for: do not branch from it
		}
		choices := e.s.Schedule
		for i := len(prefix); i < len(choices); i++ {
			last := -1
			if i > 0 {
				last = choices[i-1]
			}
			for _, a := range e.enabled[i] {
				if a == choices[i] {
					continue
				}
				cost := 0
				if last >= 0 && isIn(last, e.enabled[i]) && a != last {
					cost = 1
				}
				// preemptions inside the default suffix choices[len(prefix):i] are zero by construction
				if used+cost <= bound {
					np := append(append([]int(nil), choices[:i]...), a)
					rec(np, used+cost)
				}
			}
		}
	}
	rec(nil, 0)
	return count
}

// pct runs one execution with randomized priorities and d-1 priority change points (PCT).
func pct(p cprog, r *rng, depth, maxSteps int) *cexec {
	n := len(p.threads)
	prio := make([]int, n)
	perm := make([]int, n)
	for i := range perm {
		perm[i] = i
	}
	for i := n - 1; i > 0; i-- {
		j := r.intn(i + 1)
		perm[i], perm[j] = perm[j], perm[i]
	}
	for i, t := range perm {
		prio[t] = depth + i
	}
	change := map[int]int{}
	for k := 1; k < depth; k++ {
		change[r.intn(maxSteps)] = depth - k
	}
	step := 0
	return p.runWith(func(en []int, last int) int {
		best := en[0]
		for _, x := range en {
			if prio[x] > prio[best] {
				best = x
			}
		}
		if np, ok := change[step]; ok {
			prio[best] = np
			best = en[0]
			for _, x := range en {
				if prio[x] > prio[best] {
					best = x
				}
			}
		}
		step++
		return best
	})
}

// ---- call templates -----------------------------------------------------------------------------------

var concTemplates = []string{"mkdir", "create", "remove", "rename", "link", "symlink", "mkdirall", "removeall", "createtemp", "mkdirtemp"}

// instantiations on overlapping names of the small tree /a{d/,f} /b{g} /tmp
var concInst = map[string][]string{
	"mkdir":      {"mkdir /a/x", "mkdir /a/d/x", "mkdir /b/x"},
	"create":     {"create /a/x", "create /a/d/x", "create /b/x"},
	"remove":     {"remove /a/f", "remove /a/d", "remove /a/x", "remove /b/g", "remove /a"},
	"rename":     {"rename /a/f /b/x", "rename /b/g /a/x", "rename /a/f /a/x", "rename /a/d /b/x", "rename /b/g /a/f", "rename /a/d /a/x", "rename /a/f /x"},
	"link":       {"link /a/f /a/x", "link /a/f /b/x", "link /b/g /a/x", "link /a/f /a/d/x"},
	"symlink":    {"symlink /a /b/x", "symlink /a/f /a/x", "symlink /b /a/d/x"},
	"mkdirall":   {"mkdirall /a/x/y", "mkdirall /a/d/x/y", "mkdirall /b/x"},
	"removeall":  {"removeall /a", "removeall /a/d", "removeall /b"},
	"createtemp": {"createtemp /a t", "createtemp /a/d t"},
	"mkdirtemp":  {"mkdirtemp /a t", "mkdirtemp /a/d t"},
}

// programs run on both file systems besides the template pairs
var concFixed = []string{
	"link /a/f /b/x , remove /a/f ; remove /a/f",
	"link /a/f /b/x , remove /a/f ; remove /b/x",
	"link /a/f /b/x , remove /b/x ; remove /b/x",
	"link /a/f /b/x , removeall /a/f ; remove /a/f",
}

// both threads draw the same temp names first, so that the retry loops collide
var concRand = [][]string{{"x", "r1", "r2", "r3", "r4", "r5"}, {"x", "r1", "q2", "q3", "q4", "q5"}, {"x", "r1", "r2", "s3", "s4", "s5"}}

var concCoqWitnesses = []struct {
	name, prog string
	sched      []int
}{
	{"mkdir_remove", "mkdir /a/d/x ; remove /a/d", []int{1, 0, 0, 0, 1, 1, 1, 1, 0, 0, 0}},
	{"link_link", "link /a/f /a/x ; link /b/g /a/x", []int{1, 0, 0, 0, 0, 0, 0, 1, 1, 1, 1, 1, 1, 1, 0, 0}},
	{"rename_rename", "rename /a/d /a/x ; rename /a/f /a/x", []int{1, 0, 0, 0, 0, 0, 0, 1, 1, 1, 1, 1, 1, 0}},
	{"remove_rename", "remove /a/f ; rename /a/f /b/x", []int{1, 1, 1, 0, 0, 0, 0, 0, 1, 1, 1, 1, 1}},
	{"rename_cross", "rename /a/f /b/x ; rename /b/g /a/x", []int{1, 1, 1, 1, 1, 1, 0, 0, 0, 0, 0, 0, 0, 1}},
}

type finding struct {
	Kind     string   `json:"kind"` // nonlin | deadlock | seq-deadlock | panic
	Fs       string   `json:"fs"`
	Sig      string   `json:"sig"`
	Program  string   `json:"program"`
	Case     string   `json:"case"`
	Observed string   `json:"observed"`
	Canon    string   `json:"canon"`
	SeqOuts  []string `json:"sequential_outcomes,omitempty"`
	Calls    [][]fcall `json:"calls"`
	Blocked  []string `json:"blocked,omitempty"`
	Count    int      `json:"count"`
	Programs int      `json:"programs"`
	Steps    int      `json:"steps"`
}

type fcall struct {
	Op   string   `json:"op"`
	Args []string `json:"args"`
	Res  string   `json:"res"`
	Inv  int      `json:"inv"`  // step of the call's first granted lock (-1: none)
	Resp int      `json:"resp"` // step in which it returned (-1: it did not)
}

// signature of a finding: the unordered multiset of call templates of the program, with results,
// plus the path relation between the calls (see concRel)
func findingSig(kind string, p cprog, e *cexec) string {
	var parts []string
	for ti, th := range p.threads {
		var cs []string
		for ci, c := range th {
			cs = append(cs, c.op+"="+resClass(e.s.Threads[ti].Results[ci]))
		}
		parts = append(parts, strings.Join(cs, ","))
	}
	sort.Strings(parts)
	return kind + ":" + p.fsname + ":" + strings.Join(parts, "||") + ":" + concRel(p) + ":" + overlapSig(p, e)
}

// overlapSig: which calls of different threads overlapped in time (a call that returned before another got its
// first lock cannot have raced with it); part of the signature so that the witness kept for a signature has the
// same overlap pattern as every execution counted under it.
func overlapSig(p cprog, e *cexec) string {
	n := 0
	for _, th := range p.threads {
		n += len(th)
	}
	if n <= 2 {
		return ""
	}
	var xs []string
	for ti := range p.threads {
		for tj := ti + 1; tj < len(p.threads); tj++ {
			for ci := range p.threads[ti] {
				for cj := range p.threads[tj] {
					a, b := e.s.Threads[ti], e.s.Threads[tj]
					before := func(x *sched.Thread, i int, y *sched.Thread, j int) bool {
						return x.Resp[i] >= 0 && y.Inv[j] >= 0 && x.Resp[i] < y.Inv[j]
					}
					if !before(a, ci, b, cj) && !before(b, cj, a, ci) {
						xs = append(xs, fmt.Sprintf("%d.%d~%d.%d", ti, ci, tj, cj))
					}
				}
			}
		}
	}
	return strings.Join(xs, ",")
}

func resClass(r string) string {
	if strings.HasPrefix(r, "ok") {
		return "ok"
	}
	return r
}

// concRel classifies how the paths of a two-call program relate: which path of one call is equal
// to, the parent of, or an ancestor of a path of the other.
func concRel(p cprog) string {
	var all []ccall
	for _, th := range p.threads {
		all = append(all, th...)
	}
	if len(all) != 2 {
		return "multi"
	}
	role := func(c ccall, i int) string {
		switch c.op {
		case "rename", "link":
			return []string{"old", "new"}[i]
		case "symlink":
			return []string{"target", "new"}[i]
		case "createtemp", "mkdirtemp":
			return []string{"dir", "pat"}[i]
		}
		return "path"
	}
	type pr struct{ r, p string }
	paths := func(c ccall) []pr {
		var out []pr
		for i, a := range c.args {
			if role(c, i) == "pat" || role(c, i) == "target" {
				continue
			}
			out = append(out, pr{role(c, i), a})
		}
		return out
	}
	a, b := all[0], all[1]
	swap := a.op > b.op
	if swap {
		a, b = b, a
	}
	var rels []string
	for _, x := range paths(a) {
		for _, y := range paths(b) {
			var r string
			switch {
			case x.p == y.p:
				r = "same"
			case filepath.Dir(x.p) == y.p:
				r = "childof"
			case filepath.Dir(y.p) == x.p:
				r = "parentof"
			case strings.HasPrefix(x.p, y.p+"/"):
				r = "below"
			case strings.HasPrefix(y.p, x.p+"/"):
				r = "above"
			case filepath.Dir(x.p) == filepath.Dir(y.p):
				r = "sibling"
			default:
				continue
			}
			rels = append(rels, a.op+"."+x.r+" "+r+" "+b.op+"."+y.r)
		}
	}
	sort.Strings(rels)
	return strings.Join(rels, "; ")
}

// ---- the command ------------------------------------------------------------------------------------------

type concRun struct {
	o        *out
	findings map[string]*finding
	fprogs   map[string]map[string]bool
	seqCache map[string][]seqOutcome
	emitCap  int // at most this many executions per program are emitted for the model tie
	stats    map[string]int
}

func (cr *concRun) seqs(p cprog) []seqOutcome {
	k := p.fsname + "|" + p.randText() + "|" + p.progText()
	if s, ok := cr.seqCache[k]; ok {
		return s
	}
	s := p.sequentialOutcomes()
	cr.seqCache[k] = s
	for _, so := range s {
		if so.status != "done" {
			cr.stats["sequential_orders_not_done"]++
		}
	}
	return s
}

func (cr *concRun) note(kind string, p cprog, e *cexec, seqs []seqOutcome) {
	sig := findingSig(kind, p, e)
	f := cr.findings[sig]
	steps := len(e.s.Schedule)
	if f == nil {
		f = &finding{Kind: kind, Fs: p.fsname, Sig: sig, Steps: 1 << 30}
		cr.findings[sig] = f
		cr.fprogs[sig] = map[string]bool{}
	}
	f.Count++
	cr.fprogs[sig][p.progText()] = true
	if steps < f.Steps {
		f.Steps = steps
		f.Program = p.progText()
		f.Case = p.caseLine(e.initial, e.s.Schedule)
		f.Observed = e.observed()
		f.Canon = e.canon
		f.Blocked = e.s.Blocked
		f.Calls = nil
		for ti, th := range p.threads {
			var cs []fcall
			for ci, c := range th {
				cs = append(cs, fcall{c.op, c.args, e.s.Threads[ti].Results[ci], e.s.Threads[ti].Inv[ci], e.s.Threads[ti].Resp[ci]})
			}
			f.Calls = append(f.Calls, cs)
		}
		f.SeqOuts = nil
		for _, so := range seqs {
			f.SeqOuts = append(f.SeqOuts, so.status+" | "+so.results+" | "+so.canon)
		}
	}
}

// check classifies one execution and emits it for the model tie (MemFS only).
func (cr *concRun) check(p cprog, e *cexec, emit bool) {
	cr.stats["executions"]++
	cr.stats["executions_"+p.fsname]++
	cr.o.count(fmt.Sprintf("steps=%02d", len(e.s.Schedule)))
	seqs := cr.seqs(p)
	switch {
	case e.s.Deadlock:
		cr.stats["deadlocks"]++
		cr.note("deadlock", p, e, nil)
	default:
		panicked := false
		for _, t := range e.s.Threads {
			for _, r := range t.Results {
				if r == "panic" {
					panicked = true
				}
			}
		}
		if panicked {
			cr.stats["panics"]++
			cr.note("panic", p, e, nil)
		} else if tempDuplicate(p, e) {
			cr.stats["temp_name_handed_out_twice"]++
			cr.note("tempdup", p, e, nil)
		} else if linearization(e, seqs) == nil {
			cr.stats["non_linearizable"]++
			cr.note("nonlin", p, e, seqs)
		} else {
			cr.stats["linearizable"]++
		}
	}
	if emit && p.fsname == "memfs" && !ambiguousRemoveAll(p, e) {
		cr.o.emit(p.caseLine(e.initial, e.s.Schedule), e.observed(), p.progText()+"#"+e.resultsText()+"#"+e.canon)
	}
}

// ambiguousRemoveAll: the recursion of RemoveAll ranges over a Go map, so when a directory it
// empties has two or more entries its lock order is not determined; such executions are explored
// and judged by the oracle but not compared with the model (which takes the entries in name order).
// Criterion: some directory locked by the recursion (every W lock after the first two of the call:
// parent, target) ... is decided on the trace: the recursion deletes every entry under its own lock,
// so a directory with k entries shows k distinct locks between its own Lock and its delete Lock.
func ambiguousRemoveAll(p cprog, e *cexec) bool {
	for ti, th := range p.threads {
		for ci, c := range th {
			if c.op != "removeall" {
				continue
			}
			// W locks of the call, in order
			var ws []int
			for _, a := range e.s.Threads[ti].Traces[ci] {
				if a.Write {
					ws = append(ws, a.Lock)
				}
			}
			// ws = parent, target, <entries...>, target(delete).  A directory d appears as  d ... d ; the locks
			// strictly inside at nesting depth 1 are its entries.
			if len(ws) < 3 {
				continue
			}
			if countEntries(ws[1:], e.w.isDir) {
				return true
			}
		}
	}
	return false
}

// countEntries parses  d (entry)* d  recursively and reports whether some directory has >= 2 entries.
func countEntries(ws []int, dir map[int]bool) bool {
	amb := false
	var parse func(i int) int
	parse = func(i int) int { // ws[i] opens a node; returns the index after its closing occurrence
		d := ws[i]
		j := i + 1
		n := 0
		for j < len(ws) && ws[j] != d {
			// an entry: either  f  (a file: one lock) or  c ... c c  (a directory: enter, entries, delete)
			k := j + 1
			isDir := dir[ws[j]]
			if isDir {
				k = parse(j) // returns after the matching unlock-side occurrence ... the delete lock follows
				if k < len(ws) && ws[k] == ws[j] {
					k++
				}
			}
			n++
			j = k
		}
		if n >= 2 {
			amb = true
		}
		return j
	}
	parse(0)
	return amb
}

// tempDuplicate: CreateTemp/MkdirTemp returned one name to two callers.  Not counted when the program also
// removes or renames the directory (or an ancestor) successfully: the same name in two incarnations of a
// directory is legitimate, such executions are left to the permutation oracle.
func tempDuplicate(p cprog, e *cexec) bool {
	seen := map[string]bool{}
	dup := ""
	for ti, th := range p.threads {
		for ci, c := range th {
			r := e.s.Threads[ti].Results[ci]
			if (c.op == "createtemp" || c.op == "mkdirtemp") && strings.HasPrefix(r, "ok:") {
				if seen[r] {
					dup = c.args[0]
				}
				seen[r] = true
			}
		}
	}
	if dup == "" {
		return false
	}
	for ti, th := range p.threads {
		for ci, c := range th {
			if (c.op == "remove" || c.op == "removeall" || c.op == "rename") && e.s.Threads[ti].Results[ci] == "ok" &&
				(c.args[0] == dup || strings.HasPrefix(dup, c.args[0]+"/")) {
				return false
			}
		}
	}
	return true
}

func randFor(n int) [][]string { return concRand[:n] }

func runConc(cfg config) {
	o := newOut(cfg.dir, cfg.name)
	cr := &concRun{o: o, findings: map[string]*finding{}, fprogs: map[string]map[string]bool{}, seqCache: map[string][]seqOutcome{}, stats: map[string]int{}}
	if ls := cfg.replayLines(); ls != nil {
		for _, l := range ls {
			p, sc := parseCase(l)
			e := p.runWith(sched.FollowSchedule(sc))
			cr.stats["executions"]++
			seqs := cr.seqs(p)
			if e.s.Deadlock {
				cr.note("deadlock", p, e, nil)
			} else if strings.Contains(e.resultsText(), "panic") {
				cr.note("panic", p, e, nil)
			} else if tempDuplicate(p, e) {
				cr.note("tempdup", p, e, nil)
			} else if linearization(e, seqs) == nil {
				cr.note("nonlin", p, e, seqs)
			}
			if p.fsname == "memfs" {
				o.emit(p.caseLine(e.initial, sc), e.observed(), "")
			} else {
				o.emit(p.caseLine(e.initial, sc), "unmodelled", "") // OrefaFS has no Coq machine: explored and judged by the oracle only
			}
		}
		cr.finish(cfg)
		return
	}
	// the witnesses of Conc/Witness.v (C06_refuted_*, C07_refuted_rename_rename): same programs, same schedules,
	// on the real code; they go through the tie like every other execution and must deviate as the theorems say
	for _, wc := range concCoqWitnesses {
		p := cprog{fsname: "memfs", rand: randFor(2)}
		for _, th := range strings.Split(wc.prog, " ; ") {
			p.threads = append(p.threads, []ccall{parseCall(th)})
		}
		e := p.runWith(sched.FollowSchedule(wc.sched))
		before := cr.stats["non_linearizable"] + cr.stats["deadlocks"]
		cr.check(p, e, true)
		if cr.stats["non_linearizable"]+cr.stats["deadlocks"] > before {
			cr.stats["coq_witnesses_reproduced"]++
		} else {
			cr.stats["coq_witnesses_not_reproduced"]++
			o.extra["coq_witness_failed_"+wc.name] = p.caseLine(e.initial, e.s.Schedule) + " => " + e.observed()
		}
	}
	thorough := cfg.tier == "thorough"
	r := &rng{s: cfg.seed}
	bound := 2
	if thorough {
		bound = 3
	}
	for _, fsname := range []string{"memfs", "orefafs"} {
		tmpls := concTemplates
		// A: every pair of templates, every pair of instantiations, one call per thread
		for i, ta := range tmpls {
			for _, tb := range tmpls[i:] {
				for _, ia := range concInst[ta] {
					for _, ib := range concInst[tb] {
						if ta == tb && ia > ib {
							continue
						}
						if fsname == "orefafs" && (ta == "symlink" || tb == "symlink") {
							continue // OrefaFS has no symbolic links
						}
						p := cprog{fsname: fsname, threads: [][]ccall{{parseCall(ia)}, {parseCall(ib)}}, rand: randFor(2)}
						cr.stats["programs_1+1"]++
						explore(p, bound, 0, func(e *cexec) { cr.check(p, e, true) })
					}
				}
			}
		}
		// A': removals of ONE name that has a second hard link elsewhere (exactly one may succeed; link counts exact)
		for _, fp := range concFixed {
			th := strings.Split(fp, " ; ")
			p := cprog{fsname: fsname, rand: randFor(len(th))}
			for _, t := range th {
				var cs []ccall
				for _, c := range strings.Split(t, " , ") {
					cs = append(cs, parseCall(c))
				}
				p.threads = append(p.threads, cs)
			}
			cr.stats["programs_fixed"]++
			explore(p, bound, 0, func(e *cexec) { cr.check(p, e, true) })
		}
		// A'': the pairs that must exclude each other, the SAME name spelled differently per thread (relative to the
		// current directory "/", doubled separator, "..", "."): the implementation gets the spelling, model and oracle
		// the clean path
		for _, pr := range [][2]string{{"create /a/x", "create /a/x"}, {"mkdir /a/x", "mkdir /a/x"}, {"create /a/x", "mkdir /a/x"}, {"remove /a/f", "remove /a/f"}} {
			for _, sp := range []func(string) string{
				func(p string) string { return p[1:] },
				func(p string) string { return "/" + p },
				func(p string) string { return "/a/../" + p[1:] },
				func(p string) string { return "/a/./" + p[3:] },
			} {
				for both := 0; both < 2; both++ {
					c0, c1 := parseCall(pr[0]), parseCall(pr[1])
					c1.raw = []string{sp(c1.args[0])}
					if both == 1 {
						c0.raw = []string{sp(c0.args[0])}
					}
					p := cprog{fsname: fsname, threads: [][]ccall{{c0}, {c1}}, rand: randFor(2)}
					cr.stats["programs_spellings"]++
					explore(p, bound, 0, func(e *cexec) { cr.check(p, e, true) })
				}
			}
		}
		// B: two calls in one or both threads (sampled per template pair)
		perPair := 2
		if thorough {
			perPair = 8
		}
		pick := func(t string) ccall { return parseCall(r.pick(concInst[t])) }
		for _, ta := range tmpls {
			for _, tb := range tmpls {
				if fsname == "orefafs" && (ta == "symlink" || tb == "symlink") {
					continue
				}
				for k := 0; k < perPair; k++ {
					tc := tmpls[r.intn(len(tmpls))]
					if fsname == "orefafs" && tc == "symlink" {
						tc = "mkdir"
					}
					th0 := []ccall{pick(ta), pick(tc)}
					th1 := []ccall{pick(tb)}
					if k%2 == 1 {
						td := tmpls[r.intn(len(tmpls))]
						if fsname == "orefafs" && td == "symlink" {
							td = "remove"
						}
						th1 = append(th1, pick(td))
					}
					p := cprog{fsname: fsname, threads: [][]ccall{th0, th1}, rand: randFor(2)}
					cr.stats["programs_2calls"]++
					explore(p, 2, 400, func(e *cexec) { cr.check(p, e, true) })
				}
			}
		}
		if thorough {
			// C: three threads, bounded; D: larger programs under PCT
			for k := 0; k < 300; k++ {
				var ths [][]ccall
				for t := 0; t < 3; t++ {
					tn := tmpls[r.intn(len(tmpls))]
					if fsname == "orefafs" && tn == "symlink" {
						tn = "mkdir"
					}
					ths = append(ths, []ccall{pick(tn)})
				}
				p := cprog{fsname: fsname, threads: ths, rand: randFor(3)}
				cr.stats["programs_3threads"]++
				explore(p, 2, 600, func(e *cexec) { cr.check(p, e, true) })
			}
			for k := 0; k < 400; k++ {
				var ths [][]ccall
				for t := 0; t < 3; t++ {
					var th []ccall
					for c := 0; c < 2; c++ {
						tn := tmpls[r.intn(len(tmpls))]
						if fsname == "orefafs" && tn == "symlink" {
							tn = "mkdir"
						}
						th = append(th, pick(tn))
					}
					ths = append(ths, th)
				}
				p := cprog{fsname: fsname, threads: ths, rand: randFor(3)}
				cr.stats["programs_pct"]++
				for j := 0; j < 20; j++ {
					e := pct(p, r, 3, 40)
					cr.stats["executions_pct"]++
					cr.check(p, e, j < 4)
				}
			}
		}
	}
	cr.finish(cfg)
}

func (cr *concRun) finish(cfg config) {
	o := cr.o
	o.rule = "every unordered pair of the 10 call templates x every pair of instantiations on the tree /a{d/,f} /b{g} /tmp, one call per thread, all schedules with <= 2 (thorough 3) preemptions at lock-acquisition granularity; sampled 2-call programs; thorough: 3 threads and PCT; each execution compared with every sequential order on a fresh instance (results + final tree up to isomorphism, real-time order respected); distinct = distinct (program, results, final tree)"
	var fs []*finding
	for sig, f := range cr.findings {
		f.Programs = len(cr.fprogs[sig])
		fs = append(fs, f)
	}
	sort.Slice(fs, func(i, j int) bool { return fs[i].Sig < fs[j].Sig })
	fp, err := os.Create(filepath.Join(cfg.dir, cfg.name+".findings.jsonl"))
	if err != nil {
		panic(err)
	}
	for _, f := range fs {
		b, _ := json.Marshal(f)
		fp.Write(b)
		fp.WriteString("\n")
	}
	fp.Close()
	for k, v := range cr.stats {
		o.extra[k] = v
	}
	o.extra["finding_signatures"] = len(fs)
	o.extra["replays_diverged_by_map_order"] = divergedReplays
	o.close(cfg.name)
}
