//go:build verif

// C15, concurrent half: schedule exploration of MemIdm calls on the overlay-instrumented code.
//
// Case line (read by the extracted model MemIdm.crun, driver command `concidm`):
//
//	<admin name> <admin group> | <set-up ops> | <thread 0 ops> ; <thread 1 ops> ... | <schedule>
//
// Observed line:
//
//	<results per thread> | <lock trace per call> | <dump of the four maps and the two counters>
//
// Locks: 0 = grpMu, 1 = usrMu.
package main

import (
	"encoding/json"
	"fmt"
	"os"
	"path/filepath"
	"sort"
	"strconv"
	"strings"

	"verifharness/sched"

	"github.com/avfs/avfs"
	"github.com/avfs/avfs/idm/memidm"
	"github.com/avfs/avfs/zzverif/vsync"
)

func init() { commands["concidm"] = runConcIdm }

type idmNamer struct{ grp, usr *vsync.RWMutex }

func (n idmNamer) Sync() {}
func (n idmNamer) Name(m *vsync.RWMutex) int {
	switch m {
	case n.grp:
		return 0
	case n.usr:
		return 1
	}
	return 99
}

// the set-up executed before the threads start: g1 and u1 exist, g2 and u2 do not
var concIdmSetup = []idmOp{{kind: "AG", a: "g1"}, {kind: "AU", a: "u1", b: "g1"}}

var concIdmOps = []idmOp{
	{kind: "AG", a: "g1"}, {kind: "AG", a: "g2"},
	{kind: "AU", a: "u1", b: "g1"}, {kind: "AU", a: "u2", b: "g1"}, {kind: "AU", a: "u2", b: "g2"}, {kind: "AU", a: "u1", b: "g2"},
	{kind: "DU", a: "u1"}, {kind: "DU", a: "u2"},
	{kind: "DG", a: "g1"}, {kind: "DG", a: "g2"},
	{kind: "LU", a: "u1"}, {kind: "LU", a: "u2"},
	{kind: "LG", a: "g1"}, {kind: "LG", a: "g2"},
}

type iprog struct{ threads [][]idmOp }

func opsText(ops []idmOp) string {
	var xs []string
	for _, o := range ops {
		xs = append(xs, o.String())
	}
	if len(xs) == 0 {
		return "-"
	}
	return strings.Join(xs, " , ")
}

func (p iprog) text() string {
	var ts []string
	for _, th := range p.threads {
		ts = append(ts, opsText(th))
	}
	return strings.Join(ts, " ; ")
}

type iexec struct {
	s       *sched.S
	idm     *memidm.MemIdm
	head    string
	dump    string
	incons  string // non-empty: the four maps disagree
	enabled [][]int
}

func dumpIdm(idm *memidm.MemIdm) (string, string) {
	gn, gi, un, ui, mg, mu := memidm.VerifDump(idm)
	var sb strings.Builder
	var bad []string
	sb.WriteString("GN")
	for _, g := range gn {
		fmt.Fprintf(&sb, " %s=%s:%d", tok(g.Key), tok(g.Name), g.Gid)
	}
	sb.WriteString(" GI")
	for _, g := range gi {
		fmt.Fprintf(&sb, " %s=%s:%d", g.Key, tok(g.Name), g.Gid)
	}
	sb.WriteString(" UN")
	for _, u := range un {
		fmt.Fprintf(&sb, " %s=%s:%d:%d", tok(u.Key), tok(u.Name), u.Uid, u.Gid)
	}
	sb.WriteString(" UI")
	for _, u := range ui {
		fmt.Fprintf(&sb, " %s=%s:%d:%d", u.Key, tok(u.Name), u.Uid, u.Gid)
	}
	fmt.Fprintf(&sb, " MAX %d %d", mg, mu)
	// the four maps agree: same entries by name and by id, keys equal to the fields
	gById := map[int]memidm.VerifGroup{}
	for _, g := range gi {
		if strconv.Itoa(g.Gid) != g.Key {
			bad = append(bad, "groupsById["+g.Key+"].gid="+strconv.Itoa(g.Gid))
		}
		gById[g.Gid] = g
	}
	for _, g := range gn {
		if g.Key != g.Name {
			bad = append(bad, "groupsByName["+g.Key+"].name="+g.Name)
		}
		if h, ok := gById[g.Gid]; !ok || h.Name != g.Name {
			bad = append(bad, "group "+g.Name+" (gid "+strconv.Itoa(g.Gid)+") is not what groupsById says")
		}
	}
	if len(gn) != len(gi) {
		bad = append(bad, fmt.Sprintf("%d groups by name, %d by id", len(gn), len(gi)))
	}
	uById := map[int]memidm.VerifUser{}
	for _, u := range ui {
		if strconv.Itoa(u.Uid) != u.Key {
			bad = append(bad, "usersById["+u.Key+"].uid="+strconv.Itoa(u.Uid))
		}
		uById[u.Uid] = u
	}
	for _, u := range un {
		if u.Key != u.Name {
			bad = append(bad, "usersByName["+u.Key+"].name="+u.Name)
		}
		if h, ok := uById[u.Uid]; !ok || h.Name != u.Name {
			bad = append(bad, "user "+u.Name+" (uid "+strconv.Itoa(u.Uid)+") is not what usersById says")
		}
	}
	if len(un) != len(ui) {
		bad = append(bad, fmt.Sprintf("%d users by name, %d by id (an id is bound to no live name)", len(un), len(ui)))
	}
	return sb.String(), strings.Join(bad, "; ")
}

func (p iprog) start() *iexec {
	idm := memidm.New()
	for _, o := range concIdmSetup {
		applyIdm(idm, o)
	}
	e := &iexec{idm: idm}
	e.head = tok(avfs.AdminUserName(idm.OSType())) + " " + tok(avfs.AdminGroupName(idm.OSType()))
	g, u := memidm.VerifLocks(idm)
	var ths []*sched.Thread
	for _, ops := range p.threads {
		t := &sched.Thread{}
		for _, o := range ops {
			o := o
			t.Calls = append(t.Calls, func() string { return applyIdm(idm, o) })
		}
		ths = append(ths, t)
	}
	e.s = sched.New(idmNamer{g, u}, ths)
	return e
}

func (p iprog) runWith(choose func(en []int, last int) int) *iexec {
	e := p.start()
	e.s.Run(func(en []int, last int) int {
		e.enabled = append(e.enabled, append([]int(nil), en...))
		return choose(en, last)
	})
	e.dump, e.incons = dumpIdm(e.idm)
	return e
}

func (e *iexec) results() string {
	var ts []string
	for _, t := range e.s.Threads {
		if len(t.Results) == 0 {
			ts = append(ts, "-")
		} else {
			ts = append(ts, strings.Join(t.Results, " , "))
		}
	}
	return strings.Join(ts, " ; ")
}

func (e *iexec) traces() string {
	var ts []string
	for _, t := range e.s.Threads {
		var cs []string
		for _, tr := range t.Traces {
			var as []string
			for _, a := range tr {
				as = append(as, a.String())
			}
			if len(as) == 0 {
				as = []string{"-"}
			}
			cs = append(cs, strings.Join(as, "."))
		}
		if len(cs) == 0 {
			cs = []string{"-"}
		}
		ts = append(ts, strings.Join(cs, ","))
	}
	return strings.Join(ts, " ; ")
}

func (e *iexec) observed() string {
	st := "done"
	if e.s.Deadlock {
		st = "deadlock " + strings.Join(e.s.Blocked, " ")
	}
	return st + " | " + e.results() + " | " + e.traces() + " | " + e.dump
}

func (p iprog) caseLine(e *iexec, schedule []int) string {
	return e.head + " | " + opsText(concIdmSetup) + " | " + p.text() + " | " + schedText(schedule)
}

func parseIdmOps(s string) []idmOp {
	var ops []idmOp
	for _, x := range strings.Split(s, " , ") {
		f := strings.Fields(x)
		if len(f) == 0 || f[0] == "-" {
			continue
		}
		o := idmOp{kind: f[0]}
		switch f[0] {
		case "AU":
			o.a, o.b = untok(f[1]), untok(f[2])
		case "LGI", "LUI":
			o.id, _ = strconv.Atoi(f[1])
		default:
			o.a = untok(f[1])
		}
		ops = append(ops, o)
	}
	return ops
}

// ---- sequential orders ---------------------------------------------------------------------------------

type iseq struct {
	order   []callRef
	results string
	dump    string
}

func (p iprog) sequentialOutcomes() []iseq {
	var outs []iseq
	n := len(p.threads)
	pos := make([]int, n)
	var order []callRef
	var rec func()
	rec = func() {
		done := true
		for t := 0; t < n; t++ {
			if pos[t] < len(p.threads[t]) {
				done = false
				order = append(order, callRef{t, pos[t]})
				pos[t]++
				rec()
				pos[t]--
				order = order[:len(order)-1]
			}
		}
		if done {
			e := p.start()
			e.s.Start()
			for _, r := range order {
				t := e.s.Threads[r.t]
				for t.Resp[r.c] < 0 {
					if !e.s.Step(r.t) {
						break
					}
				}
			}
			e.s.Finish()
			d, _ := dumpIdm(e.idm)
			outs = append(outs, iseq{order: append([]callRef(nil), order...), results: e.results(), dump: d})
		}
	}
	rec()
	return outs
}

func idmLinearization(e *iexec, seqs []iseq) *iseq {
	res := e.results()
	for i := range seqs {
		so := &seqs[i]
		if so.results != res || so.dump != e.dump {
			continue
		}
		where := map[callRef]int{}
		for k, r := range so.order {
			where[r] = k
		}
		ok := true
		for _, a := range so.order {
			for _, b := range so.order {
				ta, tb := e.s.Threads[a.t], e.s.Threads[b.t]
				if ta.Resp[a.c] >= 0 && tb.Inv[b.c] >= 0 && ta.Resp[a.c] < tb.Inv[b.c] && where[a] > where[b] {
					ok = false
				}
			}
		}
		if ok {
			return so
		}
	}
	return nil
}

// ---- exploration ---------------------------------------------------------------------------------------------

func exploreIdm(p iprog, bound int, limit int, visit func(e *iexec)) int {
	count := 0
	var rec func(prefix []int, used int)
	rec = func(prefix []int, used int) {
		if limit > 0 && count >= limit {
			return
		}
		diverged := false
		e := p.runWith(prefixChooser(prefix, &diverged))
		count++
		visit(e)
		if diverged {
			return
		}
		choices := e.s.Schedule
		for i := len(prefix); i < len(choices); i++ {
			last := -1
			if i > 0 {
				last = choices[i-1]
			}
			for _, a := range e.enabled[i] {
				if a == choices[i] {
					continue
				}
				cost := 0
				if last >= 0 && isIn(last, e.enabled[i]) && a != last {
					cost = 1
				}
				if used+cost <= bound {
					rec(append(append([]int(nil), choices[:i]...), a), used+cost)
				}
			}
		}
	}
	rec(nil, 0)
	return count
}

type ifinding struct {
	Kind     string     `json:"kind"` // nonlin | inconsistent | deadlock | panic
	Sig      string     `json:"sig"`
	Program  string     `json:"program"`
	Case     string     `json:"case"`
	Observed string     `json:"observed"`
	Detail   string     `json:"detail,omitempty"`
	Calls    [][]fcall  `json:"calls"`
	SeqOuts  []string   `json:"sequential_outcomes,omitempty"`
	Count    int        `json:"count"`
	Steps    int        `json:"steps"`
}

type concIdmRun struct {
	o        *out
	findings map[string]*ifinding
	seqCache map[string][]iseq
	stats    map[string]int
}

func (cr *concIdmRun) note(kind string, p iprog, e *iexec, seqs []iseq) {
	var parts []string
	var calls [][]fcall
	for ti, th := range p.threads {
		var cs []string
		var fc []fcall
		for ci, c := range th {
			r := e.s.Threads[ti].Results[ci]
			cls := "ok"
			if strings.HasPrefix(r, "E ") {
				cls = strings.Fields(r)[1]
			} else if r == "noreturn" || strings.HasPrefix(r, "PANIC") {
				cls = strings.Fields(r)[0]
			}
			cs = append(cs, c.kind+"="+cls)
			fc = append(fc, fcall{c.kind, []string{c.a, c.b}, r, e.s.Threads[ti].Inv[ci], e.s.Threads[ti].Resp[ci]})
		}
		parts = append(parts, strings.Join(cs, ","))
		calls = append(calls, fc)
	}
	sort.Strings(parts)
	sig := kind + ":" + strings.Join(parts, "||")
	f := cr.findings[sig]
	if f == nil {
		f = &ifinding{Kind: kind, Sig: sig, Steps: 1 << 30}
		cr.findings[sig] = f
	}
	f.Count++
	if len(e.s.Schedule) < f.Steps {
		f.Steps = len(e.s.Schedule)
		f.Program = p.text()
		f.Case = p.caseLine(e, e.s.Schedule)
		f.Observed = e.observed()
		f.Detail = e.incons
		f.Calls = calls
		f.SeqOuts = nil
		for _, so := range seqs {
			f.SeqOuts = append(f.SeqOuts, so.results+" | "+so.dump)
		}
	}
}

func (cr *concIdmRun) check(p iprog, e *iexec) {
	cr.stats["executions"]++
	k := p.text()
	seqs, ok := cr.seqCache[k]
	if !ok {
		seqs = p.sequentialOutcomes()
		cr.seqCache[k] = seqs
	}
	switch {
	case e.s.Deadlock:
		cr.stats["deadlocks"]++
		cr.note("deadlock", p, e, nil)
	case strings.Contains(e.results(), "PANIC") || strings.Contains(e.results(), "panic"):
		cr.stats["panics"]++
		cr.note("panic", p, e, nil)
	case e.incons != "":
		cr.stats["inconsistent_maps"]++
		cr.note("inconsistent", p, e, seqs)
	case idmLinearization(e, seqs) == nil:
		cr.stats["non_linearizable"]++
		cr.note("nonlin", p, e, seqs)
	default:
		cr.stats["linearizable"]++
	}
	cr.o.emit(p.caseLine(e, e.s.Schedule), e.observed(), p.text()+"#"+e.results())
}

func runConcIdm(cfg config) {
	o := newOut(cfg.dir, cfg.name)
	cr := &concIdmRun{o: o, findings: map[string]*ifinding{}, seqCache: map[string][]iseq{}, stats: map[string]int{}}
	if ls := cfg.replayLines(); ls != nil {
		for _, l := range ls {
			f := strings.Split(l, " | ")
			var p iprog
			for _, th := range strings.Split(f[2], " ; ") {
				p.threads = append(p.threads, parseIdmOps(th))
			}
			var sc []int
			for _, x := range strings.Fields(f[3]) {
				if i, err := strconv.Atoi(x); err == nil {
					sc = append(sc, i)
				}
			}
			e := p.runWith(sched.FollowSchedule(sc))
			cr.check(p, e)
		}
		cr.finish(cfg)
		return
	}
	thorough := cfg.tier == "thorough"
	r := &rng{s: cfg.seed}
	ops := concIdmOps
	var seqs1, seqs2 [][]idmOp
	for _, a := range ops {
		seqs1 = append(seqs1, []idmOp{a})
		for _, b := range ops {
			seqs2 = append(seqs2, []idmOp{a, b})
		}
	}
	run := func(t0, t1 []idmOp) {
		p := iprog{threads: [][]idmOp{t0, t1}}
		exploreIdm(p, 2, 0, func(e *iexec) { cr.check(p, e) })
	}
	for i, a := range seqs1 { // 1 + 1 (unordered)
		for _, b := range seqs1[i:] {
			cr.stats["programs_1+1"]++
			run(a, b)
		}
	}
	for _, a := range seqs2 { // 2 + 1: every program
		for _, b := range seqs1 {
			cr.stats["programs_2+1"]++
			run(a, b)
		}
	}
	n22 := 6000 // 2 + 2: sampled in the quick tier, complete (unordered) in the thorough tier
	if thorough {
		for i, a := range seqs2 {
			for _, b := range seqs2[i:] {
				cr.stats["programs_2+2"]++
				run(a, b)
			}
		}
		for k := 0; k < 3000; k++ { // three threads
			var ths [][]idmOp
			for t := 0; t < 3; t++ {
				if r.chance(1, 2) {
					ths = append(ths, seqs1[r.intn(len(seqs1))])
				} else {
					ths = append(ths, seqs2[r.intn(len(seqs2))])
				}
			}
			p := iprog{threads: ths}
			cr.stats["programs_3threads"]++
			exploreIdm(p, 2, 300, func(e *iexec) { cr.check(p, e) })
		}
	} else {
		for k := 0; k < n22; k++ {
			cr.stats["programs_2+2"]++
			run(seqs2[r.intn(len(seqs2))], seqs2[r.intn(len(seqs2))])
		}
	}
	cr.finish(cfg)
}

func (cr *concIdmRun) finish(cfg config) {
	o := cr.o
	o.rule = "one shared MemIdm after AddGroup g1, AddUser u1 g1; 2-thread programs of 1-2 calls over 14 instances of {AddGroup, AddUser, DelUser, DelGroup, LookupUser, LookupGroup} on the names g1,g2,u1,u2 (1+1 and 2+1 complete, 2+2 sampled; thorough: 2+2 complete, 3 threads); every schedule with <= 2 preemptions at lock granularity; each execution: results + final maps equal some sequential order on a fresh instance (real-time order respected) and the four maps agree; distinct = distinct (program, results)"
	var fs []*ifinding
	for _, f := range cr.findings {
		fs = append(fs, f)
	}
	sort.Slice(fs, func(i, j int) bool { return fs[i].Sig < fs[j].Sig })
	fp, err := os.Create(filepath.Join(cfg.dir, cfg.name+".findings.jsonl"))
	if err != nil {
		panic(err)
	}
	for _, f := range fs {
		b, _ := json.Marshal(f)
		fp.Write(b)
		fp.WriteString("\n")
	}
	fp.Close()
	for k, v := range cr.stats {
		o.extra[k] = v
	}
	o.extra["finding_signatures"] = len(fs)
	o.close(cfg.name)
}
