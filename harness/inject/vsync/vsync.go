// Package vsync is injected by `go build -overlay` into the avfs module as
// github.com/avfs/avfs/zzverif/vsync (verif builds only; nothing under /repo is
// modified).  Its RWMutex has the method set of sync.RWMutex used by avfs and
// calls an installable scheduler before every acquisition and after every
// release.  With no scheduler installed it behaves exactly as sync.RWMutex.
package vsync

import (
	"math/rand/v2"
	"strconv"
	"sync"
)

// Scheduler is what the deterministic scheduler of the harness implements.
type Scheduler interface {
	// Before is called before every acquisition; it returns when the acquisition may proceed.
	Before(m *RWMutex, write bool)
	// After is called after every release.
	After(m *RWMutex, write bool)
	// NextRandom supplies the random part of CreateTemp/MkdirTemp names (ok=false: use os.nextRandom).
	NextRandom() (s string, ok bool)
}

var sched Scheduler

// Install sets (or, with nil, removes) the scheduler. Not safe for concurrent use with running calls.
func Install(s Scheduler) { sched = s }

// RWMutex wraps sync.RWMutex.
type RWMutex struct{ mu sync.RWMutex }

func (m *RWMutex) Lock() {
	if s := sched; s != nil {
		s.Before(m, true)
	}
	m.mu.Lock()
}

func (m *RWMutex) Unlock() {
	m.mu.Unlock()
	if s := sched; s != nil {
		s.After(m, true)
	}
}

func (m *RWMutex) RLock() {
	if s := sched; s != nil {
		s.Before(m, false)
	}
	m.mu.RLock()
}

func (m *RWMutex) RUnlock() {
	m.mu.RUnlock()
	if s := sched; s != nil {
		s.After(m, false)
	}
}

// NextRandom is called by the instrumented avfs.nextRandom.
func NextRandom() (string, bool) {
	if s := sched; s != nil {
		return s.NextRandom()
	}
	return "", false
}

// DefaultRandom is what os.nextRandom computes: a random uint32 printed in decimal.  (The
// instrumented copy cannot keep the go:linkname reference to os.nextRandom: the Go 1.23 linker
// refuses it as soon as it is referenced from a non-generic function.)
func DefaultRandom() string { return strconv.FormatUint(uint64(rand.Uint32()), 10) }
